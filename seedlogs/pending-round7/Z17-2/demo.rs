//
// seed_demo.rs  (Z17 / 2)
//
// C17: a string of the grammar parses to the affine map it denotes; ANY other string is either
// reported as an `Err` or parsed -- the parser never brings the program down.
//

use std::panic::catch_unwind;

use anyhow::Error;
use nalgebra::Point2;

use packing::Transform2;

/// Strings whose constant has a zero denominator. They are not meaningful operations, so either an
/// `Err` or some parsed value is acceptable; a panic is not.
const ZERO_DENOMINATOR: &[&str] = &[
    "x+1/0, y",
    "(x, y-1/0)",
    "0/0, y",
    "-x+1/2, -y+1/0",
    "1/0-x, y",
];

#[test]
fn zero_denominator_never_crashes() {
    for &input in ZERO_DENOMINATOR {
        let outcome = catch_unwind(|| Transform2::from_operations(input).is_ok());
        assert!(
            outcome.is_ok(),
            "from_operations({:?}) panicked instead of returning an Err or a value",
            input
        );
    }
}

/// The way the parser is meant to be used: malformed input is handled with `?` / `match`, which
/// only works when the parser returns.
#[test]
fn malformed_input_is_recoverable() {
    fn parse_or_identity(input: &str) -> Transform2 {
        match Transform2::from_operations(input) {
            Ok(t) => t,
            Err(_) => Transform2::identity(),
        }
    }
    let outcome = catch_unwind(|| parse_or_identity("x+1/0, y") * Point2::new(0.1, 0.2));
    assert!(outcome.is_ok(), "parsing \"x+1/0, y\" crashed the caller");
}

/// Control: ordinary rationals (all single-digit denominators) still denote the right map, and
/// other malformed strings are still reported as errors.
#[test]
fn control() -> Result<(), Error> {
    for d in 1..=9u32 {
        let t = Transform2::from_operations(&format!("x+1/{}, -y-1/{}", d, d))?;
        let p = t * Point2::new(0.1, 0.2);
        assert!((p.x - (0.1 + 1. / f64::from(d))).abs() < 1e-12);
        assert!((p.y - (-0.2 - 1. / f64::from(d))).abs() < 1e-12);
    }
    assert!(Transform2::from_operations("x, y, z").is_err());
    assert!(Transform2::from_operations("x+1|0, y").is_err());
    Ok(())
}
