//
// seed_demo.rs (Z08 / 1)
//
// Chains three optimisation stages, in the way the command line interface does, on the two oblique
// (Monoclinic) groups with a long thin linear trimer, and checks after every stage that all the
// parameters of the state are within their declared ranges:
//
//   cell length in [0.01, length at the start of the stage]
//   side ratio  in [0.1, ratio at the start of the stage]
//   cell angle  in [pi/6, pi/2] for an oblique cell
//   site x, y   in [-1/2, 1/2]
//   orientation in [0, 2 pi]
//
// along with a finite, defined score.
//

use std::f64::consts::PI;

use packing::traits::*;
use packing::wallpaper::{get_wallpaper_group, WallpaperGroups};
use packing::{BuildOptimiser, MolecularShape2, PackedState};

const TOL: f64 = 1e-9;

#[derive(Debug, Clone, Copy)]
struct Cell {
    length: f64,
    ratio: f64,
    angle: f64,
}

/// The parameters are observed in the JSON of the state, which is what the program writes out.
fn cell_of(state: &impl State) -> Cell {
    let json = serde_json::to_value(state).unwrap();
    Cell {
        length: json["cell"]["length"].as_f64().unwrap(),
        ratio: json["cell"]["ratio"].as_f64().unwrap(),
        angle: json["cell"]["angle"].as_f64().unwrap(),
    }
}

fn check_in_range(label: &str, stage: usize, before: Cell, state: &impl State) -> Cell {
    let json = serde_json::to_value(state).unwrap();
    let after = cell_of(state);
    println!("{} stage {}: {:?} score {:?}", label, stage, after, state.score());

    let score = state.score();
    assert!(
        score.map_or(false, f64::is_finite),
        "{} stage {}: the score {:?} is not a finite number",
        label,
        stage,
        score
    );
    assert!(
        0.01 - TOL <= after.length && after.length <= before.length + TOL,
        "{} stage {}: cell length {} outside of [0.01, {}]",
        label,
        stage,
        after.length,
        before.length
    );
    assert!(
        0.1 - TOL <= after.ratio && after.ratio <= before.ratio + TOL,
        "{} stage {}: side ratio {} outside of [0.1, {}]",
        label,
        stage,
        after.ratio,
        before.ratio
    );
    assert!(
        PI / 6. - TOL <= after.angle && after.angle <= PI / 2. + TOL,
        "{} stage {}: cell angle {} ({:.2} degrees) outside of [pi/6, pi/2] = [{}, {}]",
        label,
        stage,
        after.angle,
        after.angle.to_degrees(),
        PI / 6.,
        PI / 2.
    );
    for site in json["occupied_sites"].as_array().unwrap() {
        let x = site["x"].as_f64().unwrap();
        let y = site["y"].as_f64().unwrap();
        let angle = site["angle"].as_f64().unwrap();
        assert!(-0.5 - TOL <= x && x <= 0.5 + TOL, "site x {} out of range", x);
        assert!(-0.5 - TOL <= y && y <= 0.5 + TOL, "site y {} out of range", y);
        assert!(
            -TOL <= angle && angle <= 2. * PI + TOL,
            "site orientation {} out of range",
            angle
        );
    }
    after
}

fn stage(state: impl State, seed: u64) -> impl State {
    BuildOptimiser::default()
        .steps(1000)
        .inner_steps(1000)
        .kt_start(0.1)
        .kt_ratio(Some(0.))
        .max_step_size(0.2)
        .seed(seed)
        .build()
        .optimise_state(state)
}

fn chained(label: &str, group: WallpaperGroups, seed: u64) {
    let wg = get_wallpaper_group(group).unwrap();
    // Three discs in a line, a large one with a small one a distance of 4 either side
    let shape = MolecularShape2::from_trimer(0.5, 180., 4.);
    let state = PackedState::from_group(shape, &wg).unwrap();

    let start = cell_of(&state);
    // The state every group starts from is a valid one, with a right angle
    assert!(state.score().map_or(false, f64::is_finite));
    assert!((start.angle - PI / 2.).abs() < TOL);

    let state = stage(state, seed);
    let cell = check_in_range(label, 1, start, &state);
    let state = stage(state, seed + 10);
    let cell = check_in_range(label, 2, cell, &state);
    let state = stage(state, seed + 20);
    check_in_range(label, 3, cell, &state);
}

#[test]
fn chained_stages_keep_oblique_cell_in_range_p1() {
    chained("p1", WallpaperGroups::p1, 3);
}

#[test]
fn chained_stages_keep_oblique_cell_in_range_p2() {
    chained("p2", WallpaperGroups::p2, 3);
}
