//
// seed_demo.rs (Z08 / 2)
//
// Every supported group, combined with any shape of well-defined area, starts from a valid state:
// a finite, defined score with all the parameters within their declared ranges. From that state
// the optimiser returns another valid state.
//
// The shapes here are ordinary ones (square, disc, the default trimer) along with two elongated
// ones, a linear trimer and a thin rhombus, both of which have a perfectly well defined area.
//

use std::f64::consts::PI;

use packing::traits::*;
use packing::wallpaper::{get_wallpaper_group, WallpaperGroups};
use packing::{BuildOptimiser, Intersect, LineShape, MolecularShape2, PackedState, Shape};

const TOL: f64 = 1e-9;

fn groups() -> Vec<(&'static str, WallpaperGroups)> {
    vec![
        ("p1", WallpaperGroups::p1),
        ("p2", WallpaperGroups::p2),
        ("p1m1", WallpaperGroups::p1m1),
        ("p1g1", WallpaperGroups::p1g1),
        ("p2mm", WallpaperGroups::p2mm),
        ("p2mg", WallpaperGroups::p2mg),
        ("p2gg", WallpaperGroups::p2gg),
    ]
}

/// (length, ratio, angle) of the cell, observed in the JSON of the state
fn cell_of(state: &impl State) -> (f64, f64, f64) {
    let json = serde_json::to_value(state).unwrap();
    (
        json["cell"]["length"].as_f64().unwrap(),
        json["cell"]["ratio"].as_f64().unwrap(),
        json["cell"]["angle"].as_f64().unwrap(),
    )
}

/// A valid state has a finite, defined score and all parameters within their declared ranges
fn check_valid(label: &str, state: &impl State, max_length: f64, max_ratio: f64, oblique: bool) {
    let score = state.score();
    assert!(
        score.map_or(false, f64::is_finite),
        "{}: the score {:?} is not a finite, defined value",
        label,
        score
    );

    let (length, ratio, angle) = cell_of(state);
    assert!(
        0.01 - TOL <= length && length <= max_length + TOL,
        "{}: cell length {} outside of [0.01, {}]",
        label,
        length,
        max_length
    );
    assert!(
        0.1 - TOL <= ratio && ratio <= max_ratio + TOL,
        "{}: side ratio {} outside of [0.1, {}]",
        label,
        ratio,
        max_ratio
    );
    if oblique {
        assert!(
            PI / 6. - TOL <= angle && angle <= PI / 2. + TOL,
            "{}: cell angle {} outside of [pi/6, pi/2]",
            label,
            angle
        );
    } else {
        assert!(
            (angle - PI / 2.).abs() <= TOL,
            "{}: cell angle {} of a rectangular cell is not a right angle",
            label,
            angle
        );
    }

    let json = serde_json::to_value(state).unwrap();
    for site in json["occupied_sites"].as_array().unwrap() {
        let x = site["x"].as_f64().unwrap();
        let y = site["y"].as_f64().unwrap();
        let orientation = site["angle"].as_f64().unwrap();
        assert!(-0.5 - TOL <= x && x <= 0.5 + TOL, "{}: site x {}", label, x);
        assert!(-0.5 - TOL <= y && y <= 0.5 + TOL, "{}: site y {}", label, y);
        assert!(
            -TOL <= orientation && orientation <= 2. * PI + TOL,
            "{}: site orientation {}",
            label,
            orientation
        );
    }
}

fn starts_valid_and_optimises<S>(name: &str, shape: S)
where
    S: Shape + Intersect,
{
    // The area of the shape is well defined
    assert!(shape.area().is_finite() && shape.area() > 0.);

    for (group_name, group) in groups() {
        let label = format!("{} in {}", name, group_name);
        let oblique = group_name == "p1" || group_name == "p2";
        let wg = get_wallpaper_group(group).unwrap();
        let state = PackedState::from_group(shape.clone(), &wg).unwrap();

        let (length, ratio, _) = cell_of(&state);
        println!(
            "{}: starting cell length {}, score {:?}",
            label,
            length,
            state.score()
        );
        // The state which every group starts from is a valid one
        check_valid(&format!("{} (start)", label), &state, length, ratio, oblique);

        // and from a valid state the optimiser gives back a valid state
        let result = BuildOptimiser::default()
            .steps(60)
            .inner_steps(20)
            .kt_start(0.1)
            .seed(0)
            .build()
            .optimise_state(state);
        check_valid(
            &format!("{} (optimised)", label),
            &result,
            length,
            ratio,
            oblique,
        );
    }
}

#[test]
fn square_starts_valid() {
    starts_valid_and_optimises("square", LineShape::polygon(4).unwrap());
}

#[test]
fn disc_starts_valid() {
    starts_valid_and_optimises("disc", MolecularShape2::circle());
}

#[test]
fn default_trimer_starts_valid() {
    starts_valid_and_optimises("trimer", MolecularShape2::from_trimer(0.637_556, 120., 1.));
}

#[test]
fn linear_trimer_starts_valid() {
    // Three discs in a line which do not overlap, a large one with a small one a distance of 3
    // either side, having an area of 1.5 pi
    starts_valid_and_optimises(
        "linear trimer",
        MolecularShape2::from_trimer(0.5, 180., 3.),
    );
}

#[test]
fn thin_rhombus_starts_valid() {
    // A rhombus with diagonals of 10 and 2, having an area of 10
    starts_valid_and_optimises(
        "thin rhombus",
        LineShape::from_radial("Rhombus", vec![5., 1., 5., 1.]).unwrap(),
    );
}
