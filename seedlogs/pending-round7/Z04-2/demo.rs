//
// seed_demo.rs  (Z04 / 2)
//
// Property C04: every crystal produced has the symmetry of the requested wallpaper group.
//
// The arrangement of placed shapes (cartesian_positions() fed through shape.transform()) must be
// mapped onto itself, up to translations of the lattice spanned by the *current* cell, by every
// operation of the group expressed in Cartesian space, and each operation must be rigid.
//
// The group operations are taken from a table written out here by hand, and the cell matrix is
// rebuilt from a(), b() and angle(); nothing of the crate's own fractional -> Cartesian code or
// group table is used for the expected values.
//

use nalgebra::{Matrix2, Point2, Vector2};

use packing::traits::*;
use packing::wallpaper::{get_wallpaper_group, WallpaperGroups};
use packing::{Atom2, Cell2, LJShape2, MolecularShape2, PackedState, PotentialState, LJ2};

const TOL: f64 = 1e-9;

/// One placed shape: the centre and the size of each of its components, in order.
type Placed = Vec<(Point2<f64>, f64)>;

/// (linear part, translation) in fractional coordinates
type Op = ([[f64; 2]; 2], [f64; 2]);

const E: [[f64; 2]; 2] = [[1., 0.], [0., 1.]];
const R2: [[f64; 2]; 2] = [[-1., 0.], [0., -1.]];
const MX: [[f64; 2]; 2] = [[-1., 0.], [0., 1.]];
const MY: [[f64; 2]; 2] = [[1., 0.], [0., -1.]];

fn group_names() -> Vec<&'static str> {
    vec!["p1", "p2", "p1m1", "p1g1", "p2mm", "p2mg", "p2gg"]
}

fn select(name: &str) -> WallpaperGroups {
    match name {
        "p1" => WallpaperGroups::p1,
        "p2" => WallpaperGroups::p2,
        "p1m1" => WallpaperGroups::p1m1,
        "p1g1" => WallpaperGroups::p1g1,
        "p2mm" => WallpaperGroups::p2mm,
        "p2mg" => WallpaperGroups::p2mg,
        "p2gg" => WallpaperGroups::p2gg,
        _ => unreachable!(),
    }
}

/// The coset representatives of each group, from the International Tables.
fn table(name: &str) -> Vec<Op> {
    match name {
        "p1" => vec![(E, [0., 0.])],
        "p2" => vec![(E, [0., 0.]), (R2, [0., 0.])],
        "p1m1" => vec![(E, [0., 0.]), (MX, [0., 0.])],
        "p1g1" => vec![(E, [0., 0.]), (MX, [0., 0.5])],
        "p2mm" => vec![
            (E, [0., 0.]),
            (R2, [0., 0.]),
            (MX, [0., 0.]),
            (MY, [0., 0.]),
        ],
        "p2mg" => vec![
            (E, [0., 0.]),
            (R2, [0., 0.]),
            (MX, [0.5, 0.]),
            (MY, [0.5, 0.]),
        ],
        "p2gg" => vec![
            (E, [0., 0.]),
            (R2, [0., 0.]),
            (MX, [0.5, 0.5]),
            (MY, [0.5, 0.5]),
        ],
        _ => unreachable!(),
    }
}

/// Only p1 and p2 are compatible with an oblique cell
fn oblique(name: &str) -> bool {
    name == "p1" || name == "p2"
}

/// The columns are the two lattice vectors of the cell
fn cell_matrix(cell: &Cell2) -> Matrix2<f64> {
    Matrix2::new(
        cell.a(),
        cell.b() * cell.angle().cos(),
        0.,
        cell.b() * cell.angle().sin(),
    )
}

/// Check the arrangement `placed` in `cell` is invariant under every operation of the group
fn check_symmetry(label: &str, name: &str, cell: &Cell2, placed: &[Placed]) -> Result<(), String> {
    let c = cell_matrix(cell);
    let c_inv = c.try_inverse().ok_or("singular cell")?;

    for (index, (linear, translation)) in table(name).iter().enumerate() {
        let l_frac = Matrix2::new(linear[0][0], linear[0][1], linear[1][0], linear[1][1]);
        let m = c * l_frac * c_inv;
        let t = c * Vector2::new(translation[0], translation[1]);

        // The operation in Cartesian space is a rigid motion or a reflection
        if ((m.transpose() * m) - Matrix2::identity()).abs().max() > TOL {
            return Err(format!(
                "{} {}: operation {} is not rigid in the cell a={} b={} angle={}",
                label,
                name,
                index,
                cell.a(),
                cell.b(),
                cell.angle()
            ));
        }

        for (i, shape) in placed.iter().enumerate() {
            let image: Placed = shape.iter().map(|(p, r)| (m * p + t, *r)).collect();

            let found = placed.iter().any(|other| {
                // The offset between the first components has to be a lattice vector...
                let n = (c_inv * (image[0].0 - other[0].0)).map(f64::round);
                let shift = c * n;
                // ...which puts every component of the image on top of the same component of
                // the other shape.
                image
                    .iter()
                    .zip(other.iter())
                    .all(|(a, b)| (a.0 - b.0 - shift).norm() < TOL && (a.1 - b.1).abs() < TOL)
            });
            if !found {
                return Err(format!(
                    "{} {}: the image of shape {} under operation {} is not in the crystal \
                     (cell a={} b={} angle={})",
                    label,
                    name,
                    i,
                    index,
                    cell.a(),
                    cell.b(),
                    cell.angle()
                ));
            }
        }
    }
    Ok(())
}

/// A shape without any symmetry of its own, each component identified by its size
fn hard_shape() -> MolecularShape2 {
    MolecularShape2 {
        name: String::from("scalene"),
        items: vec![
            Atom2::new(0.1, -0.2, 1.0),
            Atom2::new(1.0, 0.3, 0.6),
            Atom2::new(-0.4, 0.9, 0.4),
        ],
    }
}

fn lj_shape() -> LJShape2 {
    LJShape2 {
        name: String::from("scalene"),
        items: vec![
            LJ2::new(0.1, -0.2, 2.0),
            LJ2::new(1.0, 0.3, 1.2),
            LJ2::new(-0.4, 0.9, 0.8),
        ],
    }
}

/// Move the state through its own handles, the same ones the optimiser uses.
///
/// The cell handles come first: length, then the side ratio, then the angle where the family
/// allows it. The three handles of the site (x, y, orientation) are the last ones.
fn configure(mut basis: Vec<packing::StandardBasis>, ratio: f64, angle: Option<f64>, site: [f64; 3]) {
    let n = basis.len();
    basis[1].set_value(ratio);
    if let Some(angle) = angle {
        // length, ratio, angle, x, y, orientation
        assert_eq!(n, 6, "expected an angle handle");
        basis[2].set_value(angle);
    }
    basis[n - 3].set_value(site[0]);
    basis[n - 2].set_value(site[1]);
    basis[n - 1].set_value(site[2]);
}

fn run(ratio: f64, cell_angle: f64, site: [f64; 3]) -> Vec<String> {
    let mut failures = vec![];
    for name in group_names() {
        let group = get_wallpaper_group(select(name)).unwrap();
        let angle = if oblique(name) { Some(cell_angle) } else { None };

        // Hard shapes
        let state = PackedState::from_group(hard_shape(), &group).unwrap();
        configure(state.generate_basis(), ratio, angle, site);
        assert!((state.cell.b() / state.cell.a() - ratio).abs() < 1e-12);
        let placed: Vec<Placed> = state
            .cartesian_positions()
            .map(|t| {
                state
                    .shape
                    .transform(&t)
                    .items
                    .iter()
                    .map(|a| (a.position, a.radius))
                    .collect()
            })
            .collect();
        assert_eq!(placed.len(), table(name).len());
        if let Err(e) = check_symmetry("hard", name, &state.cell, &placed) {
            failures.push(e);
        }

        // Lennard-Jones shapes
        let state = PotentialState::from_group(lj_shape(), &group).unwrap();
        configure(state.generate_basis(), ratio, angle, site);
        assert!((state.cell.b() / state.cell.a() - ratio).abs() < 1e-12);
        let placed: Vec<Placed> = state
            .cartesian_positions()
            .map(|t| {
                state
                    .shape
                    .transform(&t)
                    .items
                    .iter()
                    .map(|a| (a.position, a.sigma))
                    .collect()
            })
            .collect();
        assert_eq!(placed.len(), table(name).len());
        if let Err(e) = check_symmetry("lj", name, &state.cell, &placed) {
            failures.push(e);
        }
    }
    failures
}

/// The orientation every site starts with: the shape is not rotated.
#[test]
fn symmetric_with_an_unrotated_site() {
    let failures = run(1.0, std::f64::consts::PI / 2., [0.13, -0.21, 0.]);
    assert!(failures.is_empty(), "{:#?}", failures);
    let failures = run(0.8, 1.2, [0.13, -0.21, 0.]);
    assert!(failures.is_empty(), "{:#?}", failures);
}

/// Any other orientation of the site, here in the initial cell and in a cell after drifting.
#[test]
fn symmetric_with_a_rotated_site() {
    let failures = run(1.0, std::f64::consts::PI / 2., [0.13, -0.21, 0.7]);
    assert!(failures.is_empty(), "{:#?}", failures);
    let failures = run(0.8, 1.2, [0.13, -0.21, 2.9]);
    assert!(failures.is_empty(), "{:#?}", failures);
}

/// The same through an actual (short, seeded) optimisation of a Lennard-Jones p1m1 and p2mg
/// crystal, where the orientation of the site is one of the values which is moved.
#[test]
fn symmetric_after_optimisation() {
    for name in vec!["p1m1", "p2mg"] {
        let group = get_wallpaper_group(select(name)).unwrap();
        let state = PotentialState::from_group(lj_shape(), &group).unwrap();
        let optimiser = packing::BuildOptimiser::default()
            .seed(3)
            .steps(300)
            .inner_steps(100)
            .kt_start(0.)
            .kt_ratio(Some(0.))
            .max_step_size(0.01)
            .build();
        // optimise_state hands back an opaque `impl State`; the state is serialised to get at
        // the result, which also is what the command line tool writes out.
        let optimised = optimiser.optimise_state(state);
        let json = serde_json::to_string(&optimised).unwrap();
        let state: PotentialState<LJShape2> = serde_json::from_str(&json).unwrap();

        let placed: Vec<Placed> = state
            .cartesian_positions()
            .map(|t| {
                state
                    .shape
                    .transform(&t)
                    .items
                    .iter()
                    .map(|a| (a.position, a.sigma))
                    .collect()
            })
            .collect();
        if let Err(e) = check_symmetry("lj, optimised", name, &state.cell, &placed) {
            panic!("{}", e);
        }
    }
}
