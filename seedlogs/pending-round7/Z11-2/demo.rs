//
// seed_demo.rs  (Z11 / 2)
//
// C11, JSON half: writing a state to JSON and reading it back gives a state with the same score,
// the same placements and the same serialisation.
//
// Numbers are compared with a tolerance of a few ulp so that the test does not depend on the JSON
// parser rounding every decimal string to the nearest float.

use anyhow::{anyhow, Error};
use serde::de::DeserializeOwned;
use serde_json::Value;

use packing::traits::*;
use packing::wallpaper::{get_wallpaper_group, WallpaperGroups};
use packing::{BuildOptimiser, LJShape2, LineShape, PackedState, PotentialState};

fn all_groups() -> Vec<WallpaperGroups> {
    vec![
        WallpaperGroups::p1,
        WallpaperGroups::p2,
        WallpaperGroups::p1m1,
        WallpaperGroups::p1g1,
        WallpaperGroups::p2mm,
        WallpaperGroups::p2mg,
        WallpaperGroups::p2gg,
    ]
}

fn close(a: f64, b: f64) -> bool {
    (a - b).abs() <= 1e-12 * f64::max(1., f64::max(a.abs(), b.abs()))
}

/// Structural equality of two JSON documents, with the numbers compared by `close`
fn same_json(a: &Value, b: &Value, path: &str) -> Result<(), String> {
    match (a, b) {
        (Value::Number(x), Value::Number(y)) => {
            if close(x.as_f64().unwrap(), y.as_f64().unwrap()) {
                Ok(())
            } else {
                Err(format!("{}: {} became {}", path, x, y))
            }
        }
        (Value::Array(x), Value::Array(y)) => {
            if x.len() != y.len() {
                return Err(format!("{}: array length changed", path));
            }
            for (i, (p, q)) in x.iter().zip(y.iter()).enumerate() {
                same_json(p, q, &format!("{}[{}]", path, i))?;
            }
            Ok(())
        }
        (Value::Object(x), Value::Object(y)) => {
            if x.len() != y.len() {
                return Err(format!("{}: fields changed", path));
            }
            for (key, p) in x.iter() {
                let q = y
                    .get(key)
                    .ok_or_else(|| format!("{}.{}: field is lost", path, key))?;
                same_json(p, q, &format!("{}.{}", path, key))?;
            }
            Ok(())
        }
        (x, y) => {
            if x == y {
                Ok(())
            } else {
                Err(format!("{}: {} became {}", path, x, y))
            }
        }
    }
}

/// All the numbers in the listing of the cell and the Cartesian transform of every shape
fn placements(state: &impl State) -> Vec<f64> {
    state
        .as_positions()
        .unwrap()
        .split(|c: char| !(c.is_ascii_digit() || c == '.' || c == '-' || c == 'e'))
        .filter_map(|token| token.parse::<f64>().ok())
        .collect()
}

/// Write the state, read it back as a `T`, and compare everything which can be observed
///
/// The optimiser only gives `impl State`, so the type to read is given separately.
fn round_trip<T>(state: &impl State, what: &str)
where
    T: State + DeserializeOwned,
{
    let written = serde_json::to_string(state).unwrap();
    let read: T = serde_json::from_str(&written).unwrap();

    // The same score
    match (state.score(), read.score()) {
        (Some(s), Some(r)) => assert!(close(s, r), "{}: score {} became {}", what, s, r),
        (None, None) => {}
        (s, r) => panic!("{}: score {:?} became {:?}", what, s, r),
    }

    // The same placements
    assert_eq!(state.total_shapes(), read.total_shapes());
    let original = placements(state);
    let recovered = placements(&read);
    assert!(original.len() > 9 * state.total_shapes());
    assert_eq!(original.len(), recovered.len(), "{}: number of values", what);
    assert!(
        original.iter().zip(recovered.iter()).all(|(a, b)| close(*a, *b)),
        "{}: the placements\n{}\nare read back as\n{}",
        what,
        state.as_positions().unwrap(),
        read.as_positions().unwrap()
    );

    // The same serialisation
    let rewritten = serde_json::to_string(&read).unwrap();
    let before: Value = serde_json::from_str(&written).unwrap();
    let after: Value = serde_json::from_str(&rewritten).unwrap();
    if let Err(difference) = same_json(&before, &after, "state") {
        panic!(
            "{}: the JSON changes when read and written again; {}",
            what, difference
        );
    }
}

/// States as they are constructed, for every group and both kinds of state
#[test]
fn round_trip_initial_states() -> Result<(), Error> {
    for group in all_groups() {
        let name = format!("initial {:?}", group);
        let wg = get_wallpaper_group(group)?;
        let packed = PackedState::from_group(LineShape::polygon(4)?, &wg)?;
        round_trip::<PackedState<LineShape>>(&packed, &name);
        let potential = PotentialState::from_group(LJShape2::from_trimer(0.637556, 120., 1.), &wg)?;
        round_trip::<PotentialState<LJShape2>>(&potential, &name);
    }
    Ok(())
}

/// States as they come out of a (short) optimisation, for every group
#[test]
fn round_trip_optimised_packed_states() -> Result<(), Error> {
    for group in all_groups() {
        let name = format!("optimised hard {:?}", group);
        let wg = get_wallpaper_group(group)?;
        let state = PackedState::from_group(LineShape::polygon(4)?, &wg)?;
        let initial = state.score().ok_or_else(|| anyhow!("invalid state"))?;

        let optimised = BuildOptimiser::default()
            .seed(3)
            .steps(500)
            .kt_start(0.)
            .kt_ratio(Some(0.))
            .build()
            .optimise_state(state);
        // The optimisation has done something
        assert!(optimised.score().ok_or_else(|| anyhow!("invalid state"))? > initial);

        round_trip::<PackedState<LineShape>>(&optimised, &name);
    }
    Ok(())
}

/// A state with an explicitly chosen, valid, cell: p2mg with b = 0.8 a
#[test]
fn round_trip_rectangular_potential_state() -> Result<(), Error> {
    let wg = get_wallpaper_group(WallpaperGroups::p2mg)?;
    let state = PotentialState::from_group(LJShape2::circle(), &wg)?;
    {
        // For this family the degrees of freedom of the cell are the length and the ratio
        let mut basis = state.generate_basis();
        basis[1].set_value(0.8);
    }
    round_trip::<PotentialState<LJShape2>>(&state, "p2mg LJ, ratio 0.8");
    Ok(())
}
