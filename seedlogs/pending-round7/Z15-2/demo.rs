//
// seed_demo.rs (Z15 / 2)
//
// Property C15: a site occupied in a group of order N yields exactly N placements; placement k
// has fractional position equal (modulo whole lattice vectors) to operation k applied to the
// site's coordinates, lies in [-1/2, 1/2)^2, and has linear part equal to the operation's linear
// part times the site's rotation.
//
// The group tables are written out numerically below so that the expectation is independent of
// the crate's own parser and of its transform product.

use nalgebra::{Matrix2, Matrix3, Vector2};

use packing::traits::*;
use packing::wallpaper::{get_wallpaper_group, WallpaperGroups};
use packing::{LineShape, PackedState, Transform2};

/// One symmetry operation: (x, y) -> (sx * x + tx, sy * y + ty)
struct Op {
    sx: f64,
    sy: f64,
    tx: f64,
    ty: f64,
}

const fn op(sx: f64, sy: f64, tx: f64, ty: f64) -> Op {
    Op { sx, sy, tx, ty }
}

fn groups() -> Vec<(WallpaperGroups, Vec<Op>)> {
    vec![
        (WallpaperGroups::p1, vec![op(1., 1., 0., 0.)]),
        (
            WallpaperGroups::p2,
            vec![op(1., 1., 0., 0.), op(-1., -1., 0., 0.)],
        ),
        (
            WallpaperGroups::p1m1,
            vec![op(1., 1., 0., 0.), op(-1., 1., 0., 0.)],
        ),
        (
            WallpaperGroups::p1g1,
            vec![op(1., 1., 0., 0.), op(-1., 1., 0., 0.5)],
        ),
        (
            WallpaperGroups::p2mm,
            vec![
                op(1., 1., 0., 0.),
                op(-1., -1., 0., 0.),
                op(-1., 1., 0., 0.),
                op(1., -1., 0., 0.),
            ],
        ),
        (
            WallpaperGroups::p2mg,
            vec![
                op(1., 1., 0., 0.),
                op(-1., -1., 0., 0.),
                op(-1., 1., 0.5, 0.),
                op(1., -1., 0.5, 0.),
            ],
        ),
        (
            WallpaperGroups::p2gg,
            vec![
                op(1., 1., 0., 0.),
                op(-1., -1., 0., 0.),
                op(-1., 1., 0.5, 0.5),
                op(1., -1., 0.5, 0.5),
            ],
        ),
    ]
}

/// Difference of two fractional coordinates, ignoring whole lattice vectors
fn lattice_diff(a: f64, b: f64) -> f64 {
    let d = a - b;
    (d - d.round()).abs()
}

/// Place a square on the general site of every group at (x, y) with orientation `angle` and
/// compare every placement reported by the state with the definition of the group.
fn check_all_groups(x: f64, y: f64, angle: f64) {
    const TOL: f64 = 1e-9;

    for (name, ops) in groups() {
        let label = format!("{:?} x={} y={} angle={}", name, x, y, angle);
        let group = get_wallpaper_group(name).unwrap();
        let square = LineShape::from_radial("Square", vec![1., 1., 1., 1.]).unwrap();
        let state = PackedState::<LineShape>::from_group(square, &group).unwrap();

        {
            // The cell parameters come first, the last three values are x, y, angle of the site.
            let mut basis = state.generate_basis();
            let n = basis.len();
            basis[n - 3].set_value(x);
            basis[n - 2].set_value(y);
            basis[n - 1].set_value(angle);
            assert_eq!(basis[n - 3].get_value(), x);
            assert_eq!(basis[n - 2].get_value(), y);
            assert_eq!(basis[n - 1].get_value(), angle);
        }

        let placements: Vec<Transform2> = state.relative_positions().collect();
        assert_eq!(
            placements.len(),
            ops.len(),
            "{}: number of placements (the state reports {} shapes)",
            label,
            state.total_shapes(),
        );
        assert_eq!(placements.len(), state.total_shapes(), "{}", label);

        let (s, c) = angle.sin_cos();
        let site_rotation = Matrix2::new(c, -s, s, c);

        for (k, (placement, o)) in placements.iter().zip(ops.iter()).enumerate() {
            let m: Matrix3<f64> = (*placement).into();

            // Position: operation k applied to the site's coordinates, modulo the lattice
            let expected = Vector2::new(o.sx * x + o.tx, o.sy * y + o.ty);
            assert!(
                lattice_diff(m[(0, 2)], expected.x) < TOL
                    && lattice_diff(m[(1, 2)], expected.y) < TOL,
                "{}: placement {} is at ({}, {}), expected ({}, {}) modulo the lattice",
                label,
                k,
                m[(0, 2)],
                m[(1, 2)],
                expected.x,
                expected.y,
            );

            // Within the canonical cell
            assert!(
                -0.5 <= m[(0, 2)] && m[(0, 2)] < 0.5 && -0.5 <= m[(1, 2)] && m[(1, 2)] < 0.5,
                "{}: placement {} at ({}, {}) is outside [-1/2, 1/2)^2",
                label,
                k,
                m[(0, 2)],
                m[(1, 2)],
            );

            // Linear part: the operation's linear part times the site's rotation
            let expected_linear = Matrix2::new(o.sx, 0., 0., o.sy) * site_rotation;
            let linear = Matrix2::new(m[(0, 0)], m[(0, 1)], m[(1, 0)], m[(1, 1)]);
            assert!(
                (linear - expected_linear).abs().max() < TOL,
                "{}: placement {} has linear part {:?}, expected {:?}",
                label,
                k,
                linear,
                expected_linear,
            );

            // ... which in particular maps the corner (1, 0) of the shape to where the operation
            // sends the rotated corner.
            let corner = *placement * nalgebra::Point2::new(1., 0.);
            let expected_corner = Vector2::new(o.sx * c, o.sy * s);
            assert!(
                (corner.x - m[(0, 2)] - expected_corner.x).abs() < TOL
                    && (corner.y - m[(1, 2)] - expected_corner.y).abs() < TOL,
                "{}: placement {} sends the corner (1, 0) to the wrong place",
                label,
                k,
            );
        }
    }
}

/// Coordinates in general position, where no two copies coincide.
#[test]
fn placements_of_general_site() {
    check_all_groups(-0.375, -0.375, 0.);
    check_all_groups(0.2, -0.3, 0.4);
    check_all_groups(-0.45, 0.05, 5.9);
    check_all_groups(0.3, 0.45, 2.5);
}

/// Site coordinates on the bounds of the cell, x or y = +-1/2 exactly. These are what a basis
/// value is clamped to when a step of the optimisation leaves the allowed range.
#[test]
fn placements_of_site_on_the_bounds() {
    check_all_groups(-0.5, 0.3, 0.4);
    check_all_groups(0.5, 0.3, 0.4);
    check_all_groups(0.2, -0.5, 1.);
    check_all_groups(0.2, 0.5, 1.);
    check_all_groups(-0.5, -0.5, 0.);
    check_all_groups(0.5, 0.5, 2.5);
    check_all_groups(-0.5, 0.5, 0.);
}

/// Site coordinates on the symmetry elements through the centre of the cell, and on the mirror
/// and glide lines at a quarter of the cell.
#[test]
fn placements_of_site_on_symmetry_elements() {
    check_all_groups(0., 0., 0.4);
    check_all_groups(0., 0.3, 0.);
    check_all_groups(0.2, 0., 1.);
    check_all_groups(0.25, 0.1, 0.4);
    check_all_groups(-0.25, 0.25, 0.);
}
