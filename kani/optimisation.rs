// Kani harnesses for optimisation.rs (cfg(kani) only).  These discharge the IEEE-special-value
// clauses of the accept_score bridge contract (DESIGN 3.3) on the real functions.
use super::*;
use rand::RngCore;

/// an adversarial generator: every draw is an arbitrary 64-bit word
pub struct AnyRng;
impl RngCore for AnyRng {
    fn next_u32(&mut self) -> u32 { kani::any() }
    fn next_u64(&mut self) -> u64 { kani::any() }
    fn fill_bytes(&mut self, dest: &mut [u8]) { for b in dest.iter_mut() { *b = kani::any(); } }
    fn try_fill_bytes(&mut self, dest: &mut [u8]) -> Result<(), rand::Error> { self.fill_bytes(dest); Ok(()) }
}

fn any_opt() -> MCOptimiser {
    MCOptimiser {
        kt_start: kani::any(), kt_ratio: kani::any(), max_step_size: kani::any(),
        steps: kani::any(), inner_steps: kani::any(), seed: kani::any(),
        convergence: if kani::any() { Some(kani::any()) } else { None },
    }
}

/// libm's exp at the IEEE special values (C99 F.9.3.1), arbitrary-but-sane elsewhere.
/// CBMC's own exp model is a nondeterministic over-approximation, so it is replaced by this one.
fn exp_model(x: f64) -> f64 {
    if x.is_nan() { return f64::NAN; }
    if x == f64::INFINITY { return f64::INFINITY; }
    if x == f64::NEG_INFINITY { return 0.; }
    let r: f64 = kani::any();
    kani::assume(r >= 0. && !r.is_nan());
    kani::assume(if x >= 0. { r >= 1. } else { r <= 1. });
    r
}

/// K:opt:accept_zero — C05/C07: at kT = +0.0 a move is accepted iff it has a score that is not worse
#[kani::proof]
#[kani::stub(f64::exp, exp_model)]
fn k_opt_accept_zero() {
    let opt = any_opt();
    let old: f64 = kani::any();
    kani::assume(!old.is_nan());
    let new: Option<f64> = if kani::any() { let n: f64 = kani::any(); kani::assume(!n.is_nan()); Some(n) } else { None };
    let mut rng = AnyRng;
    let r = opt.accept_score(new, old, 0.0, &mut rng);
    match (new, r) {
        (None, r) => assert!(r.is_none()),
        (Some(n), Some(a)) => { assert!(n >= old); assert!(a.to_bits() == n.to_bits()); }
        (Some(n), None) => assert!(n < old),
    }
    kani::cover!(matches!((new, r), (Some(_), Some(_))));
    kani::cover!(matches!((new, r), (Some(_), None)));
    kani::cover!(new.is_some() && new.unwrap() == old);
}

/// K:opt:accept_none — C07: a proposal without a score is never accepted, at any temperature (incl. NaN, inf, negative);
/// an accepted score is the proposed one; a strictly better score is always accepted
#[kani::proof]
#[kani::stub(f64::exp, exp_model)]
fn k_opt_accept_any_kt() {
    let opt = any_opt();
    let old: f64 = kani::any();
    let kt: f64 = kani::any();
    let new: Option<f64> = if kani::any() { Some(kani::any()) } else { None };
    let mut rng = AnyRng;
    let r = opt.accept_score(new, old, kt, &mut rng);
    if new.is_none() { assert!(r.is_none()); }
    // a score that is not a number is not a defined score: never accepted (defect D10, fixed)
    if let Some(n) = new { if n.is_nan() { assert!(r.is_none()); } }
    if let Some(a) = r { assert!(a.to_bits() == new.unwrap().to_bits()); }
    if let Some(n) = new { if n > old { assert!(r.is_some()); } }
    kani::cover!(new.is_none());
    kani::cover!(new.is_some() && new.unwrap().is_nan());
    kani::cover!(r.is_some());
}

/// K:opt:draw_range — the uniform draw used as acceptance threshold lies in [0, 1) for every generator output
#[kani::proof]
fn k_opt_draw_range() {
    let mut rng = AnyRng;
    let u: f64 = rand::Rng::gen(&mut rng);
    assert!(0. <= u && u < 1.);
    kani::cover!(u == 0.);
}
