// Kani harnesses for wallpaper.rs / transform.rs::from_operations (cfg(kani) only).
// Finite domain => complete by enumeration: one harness per (group, string index), all concrete.
use super::*;
use crate::CrystalFamily;
use crate::Transform2;
use nalgebra::Matrix3;

/// One general position (x', y') = (a x + b y + s, c x + d y + t) as [a, b, s, c, d, t].
type Op = [f64; 6];

/// INDEPENDENT ORACLE: general positions of the plane groups in the standard setting, typed from
/// International Tables for Crystallography, Vol. A (plane groups No. 1, 2, 3, 4, 6, 7, 8), together
/// with the crystal system of each group (oblique = Monoclinic, rectangular = Orthorhombic here).
fn ita(group: &str) -> (CrystalFamily, &'static [Op]) {
    const P1: [Op; 1] = [[1., 0., 0., 0., 1., 0.]];
    const P2: [Op; 2] = [[1., 0., 0., 0., 1., 0.], [-1., 0., 0., 0., -1., 0.]];
    const PM: [Op; 2] = [[1., 0., 0., 0., 1., 0.], [-1., 0., 0., 0., 1., 0.]];
    const PG: [Op; 2] = [[1., 0., 0., 0., 1., 0.], [-1., 0., 0., 0., 1., 0.5]];
    const P2MM: [Op; 4] = [[1., 0., 0., 0., 1., 0.], [-1., 0., 0., 0., -1., 0.], [-1., 0., 0., 0., 1., 0.], [1., 0., 0., 0., -1., 0.]];
    const P2MG: [Op; 4] = [[1., 0., 0., 0., 1., 0.], [-1., 0., 0., 0., -1., 0.], [-1., 0., 0.5, 0., 1., 0.], [1., 0., 0.5, 0., -1., 0.]];
    const P2GG: [Op; 4] = [[1., 0., 0., 0., 1., 0.], [-1., 0., 0., 0., -1., 0.], [-1., 0., 0.5, 0., 1., 0.5], [1., 0., 0.5, 0., -1., 0.5]];
    match group {
        "p1" => (CrystalFamily::Monoclinic, &P1),
        "p2" => (CrystalFamily::Monoclinic, &P2),
        "p1m1" => (CrystalFamily::Orthorhombic, &PM),
        "p1g1" => (CrystalFamily::Orthorhombic, &PG),
        "p2mm" => (CrystalFamily::Orthorhombic, &P2MM),
        "p2mg" => (CrystalFamily::Orthorhombic, &P2MG),
        _ => (CrystalFamily::Orthorhombic, &P2GG),
    }
}

/// equal modulo whole lattice translations (all values involved are multiples of 1/2: exact in binary)
fn same_mod_lattice(m: &Matrix3<f64>, op: &Op) -> bool {
    let frac = |a: f64, b: f64| { let d = a - b; d == d.floor() };
    m[(0, 0)] == op[0] && m[(0, 1)] == op[1] && frac(m[(0, 2)], op[2])
        && m[(1, 0)] == op[3] && m[(1, 1)] == op[4] && frac(m[(1, 2)], op[5])
}

fn check_string(g: WallpaperGroups, gname: &str, k: usize) {
    let wg = get_wallpaper_group(g).unwrap();
    let (_, ops) = ita(gname);
    assert!(k < wg.wyckoff_str.len());
    let t = Transform2::from_operations(wg.wyckoff_str[k]);
    assert!(t.is_ok());
    let m: Matrix3<f64> = t.unwrap().into();
    // bottom row as the crate's own parser leaves it (affine, no projective part)
    assert!(m[(2, 0)] == 0. && m[(2, 1)] == 0. && m[(2, 2)] == 0.);
    let mut found = ops.len();
    let mut j = 0;
    while j < ops.len() {
        if same_mod_lattice(&m, &ops[j]) { found = j; }
        j += 1;
    }
    assert!(found < ops.len()); // the operation is a general position of the group
    kani::cover!(found == k, "same position as in ITA");
    kani::cover!(found == 0, "entry0");
    kani::cover!(found == 1, "entry1");
    kani::cover!(found == 2, "entry2");
    kani::cover!(found == 3, "entry3");
}

macro_rules! table_harness {
    ($name:ident, $g:ident, $k:expr) => {
        #[kani::proof]
        #[kani::unwind(40)]
        fn $name() { check_string(WallpaperGroups::$g, stringify!($g), $k); }
    };
}
table_harness!(k_tables_p1_0, p1, 0);
table_harness!(k_tables_p2_0, p2, 0);
table_harness!(k_tables_p2_1, p2, 1);
table_harness!(k_tables_p1m1_0, p1m1, 0);
table_harness!(k_tables_p1m1_1, p1m1, 1);
table_harness!(k_tables_p1g1_0, p1g1, 0);
table_harness!(k_tables_p1g1_1, p1g1, 1);
table_harness!(k_tables_p2mm_0, p2mm, 0);
table_harness!(k_tables_p2mm_1, p2mm, 1);
table_harness!(k_tables_p2mm_2, p2mm, 2);
table_harness!(k_tables_p2mm_3, p2mm, 3);
table_harness!(k_tables_p2mg_0, p2mg, 0);
table_harness!(k_tables_p2mg_1, p2mg, 1);
table_harness!(k_tables_p2mg_2, p2mg, 2);
table_harness!(k_tables_p2mg_3, p2mg, 3);
table_harness!(k_tables_p2gg_0, p2gg, 0);
table_harness!(k_tables_p2gg_1, p2gg, 1);
table_harness!(k_tables_p2gg_2, p2gg, 2);
table_harness!(k_tables_p2gg_3, p2gg, 3);

/// label, family and order of each table (C10, C16, C04)
macro_rules! label_harness {
    ($name:ident, $g:ident) => {
        #[kani::proof]
        #[kani::unwind(8)]
        fn $name() {
            let wg = get_wallpaper_group(WallpaperGroups::$g).unwrap();
            let (family, ops) = ita(stringify!($g));
            assert!(wg.name.as_bytes() == stringify!($g).as_bytes()); // labelled with what was asked for
            assert!(wg.family == family);                               // crystal family as tabulated
            assert!(wg.wyckoff_str.len() == ops.len());                 // group order
            let w = Wallpaper::new(&wg);
            assert!(w.family == family);
            kani::cover!(true);
        }
    };
}
label_harness!(k_tables_label_p1, p1);
label_harness!(k_tables_label_p2, p2);
label_harness!(k_tables_label_p1m1, p1m1);
label_harness!(k_tables_label_p1g1, p1g1);
label_harness!(k_tables_label_p2mm, p2mm);
label_harness!(k_tables_label_p2mg, p2mg);
label_harness!(k_tables_label_p2gg, p2gg);

// ---- the oracle itself is a group of the claimed kind (checked once on the ITA constants) ----
fn compose(a: &Op, b: &Op) -> Op {
    // (a ∘ b)(p) = A (B p + tb) + ta
    [a[0] * b[0] + a[1] * b[3], a[0] * b[1] + a[1] * b[4], a[0] * b[2] + a[1] * b[5] + a[2],
     a[3] * b[0] + a[4] * b[3], a[3] * b[1] + a[4] * b[4], a[3] * b[2] + a[4] * b[5] + a[5]]
}
fn same_op(a: &Op, b: &Op) -> bool {
    let frac = |x: f64, y: f64| { let d = x - y; d == d.floor() };
    a[0] == b[0] && a[1] == b[1] && a[3] == b[3] && a[4] == b[4] && frac(a[2], b[2]) && frac(a[5], b[5])
}
fn member(ops: &[Op], x: &Op) -> bool {
    let mut j = 0;
    let mut f = false;
    while j < ops.len() { if same_op(&ops[j], x) { f = true; } j += 1; }
    f
}
fn group_axioms(gname: &str, mirrors: usize, glides: usize, twofolds: usize) {
    let (_, ops) = ita(gname);
    let id: Op = [1., 0., 0., 0., 1., 0.];
    assert!(member(ops, &id));
    let (mut nm, mut ng, mut n2) = (0, 0, 0);
    let mut i = 0;
    while i < ops.len() {
        let a = &ops[i];
        // each operation is an orthogonal integer matrix: rigid motion or reflection of a rectangular/oblique cell
        let det = a[0] * a[4] - a[1] * a[3];
        assert!(det == 1. || det == -1.);
        let mut has_inv = false;
        let mut j = 0;
        while j < ops.len() {
            let c = compose(a, &ops[j]);
            assert!(member(ops, &c));           // closure
            if same_op(&c, &id) { has_inv = true; }
            // no repeated entry
            if j != i { assert!(!same_op(a, &ops[j])); }
            j += 1;
        }
        assert!(has_inv);                        // inverses
        if det == -1. {
            // reflection part; glide iff the translation along the mirror line is a half
            let along = if a[0] == -1. { a[5] } else { a[2] };
            if along == 0.5 { ng += 1 } else { nm += 1 }
        } else if a[0] == -1. && a[4] == -1. { n2 += 1; }
        i += 1;
    }
    assert!(nm == mirrors && ng == glides && n2 == twofolds);
    // C08 (initial state): a site starts at (p, p) with p = -1/2 + 1/(2N) (OccupiedSite::from_wyckoff) in a square cell of side
    // 4 R N (PackedState::initialise).  Any two different copies, or a copy and a lattice image of it, are then farther apart than
    // 1/(2N) in fractional units, i.e. farther than 2R: shapes within R of their centres cannot overlap, the initial score is defined.
    let n = ops.len() as f64;
    let p = -0.5 + 0.5 / n;
    let mut k = 0;
    while k < ops.len() {
        let mut l = 0;
        while l < ops.len() {
            let mut dn = -2;
            while dn <= 2 {
                let mut dm = -2;
                while dm <= 2 {
                    if !(k == l && dn == 0 && dm == 0) {
                        let dx = (ops[k][0] * p + ops[k][1] * p + ops[k][2]) - (ops[l][0] * p + ops[l][1] * p + ops[l][2]) + dn as f64;
                        let dy = (ops[k][3] * p + ops[k][4] * p + ops[k][5]) - (ops[l][3] * p + ops[l][4] * p + ops[l][5]) + dm as f64;
                        assert!(4. * n * n * (dx * dx + dy * dy) > 1.); // 2N * distance > 1
                    }
                    dm += 1;
                }
                dn += 1;
            }
            l += 1;
        }
        k += 1;
    }
    kani::cover!(true);
}
macro_rules! axioms_harness {
    ($name:ident, $g:ident, $m:expr, $gl:expr, $t:expr) => {
        #[kani::proof]
        #[kani::unwind(7)]
        fn $name() { group_axioms(stringify!($g), $m, $gl, $t); }
    };
}
// (mirrors, glides, two-fold rotations) among the general positions listed in ITA
axioms_harness!(k_tables_axioms_p1, p1, 0, 0, 0);
axioms_harness!(k_tables_axioms_p2, p2, 0, 0, 1);
axioms_harness!(k_tables_axioms_p1m1, p1m1, 1, 0, 0);
axioms_harness!(k_tables_axioms_p1g1, p1g1, 0, 1, 0);
axioms_harness!(k_tables_axioms_p2mm, p2mm, 2, 0, 1);
axioms_harness!(k_tables_axioms_p2mg, p2mg, 1, 1, 1);
axioms_harness!(k_tables_axioms_p2gg, p2gg, 0, 2, 1);

/// WyckoffSite::new (C16, C15, C17): the site built from a table holds ONE operation per table string — none dropped, merged or
/// altered on the way from the string to the list — and each is a general position of the group; together with the per-string
/// harnesses above (string k parses to a general position) and the count this is a bijection with the ITA list.
macro_rules! wyckoff_harness {
    ($name:ident, $g:ident) => {
        #[kani::proof]
        #[kani::unwind(40)]
        fn $name() {
            let wg = get_wallpaper_group(WallpaperGroups::$g).unwrap();
            let (_, ops) = ita(stringify!($g));
            let site = WyckoffSite::new(&wg);
            assert!(site.is_ok());
            let site = site.unwrap();
            assert!(site.symmetries.len() == ops.len());
            assert!(site.multiplicity() == ops.len());
            let mut seen = [false; 4];
            let mut k = 0;
            while k < site.symmetries.len() {
                let m: Matrix3<f64> = site.symmetries[k].into();
                assert!(m[(2, 0)] == 0. && m[(2, 1)] == 0. && m[(2, 2)] == 0.);
                let mut found = ops.len();
                let mut j = 0;
                while j < ops.len() {
                    if same_mod_lattice(&m, &ops[j]) { found = j; }
                    j += 1;
                }
                assert!(found < ops.len());   // a general position of the group
                assert!(!seen[found]);        // not one that is already in the list
                seen[found] = true;
                k += 1;
            }
            kani::cover!(true);
        }
    };
}
wyckoff_harness!(k_wyckoff_new_p1, p1);
wyckoff_harness!(k_wyckoff_new_p2, p2);
wyckoff_harness!(k_wyckoff_new_p1m1, p1m1);
wyckoff_harness!(k_wyckoff_new_p1g1, p1g1);
wyckoff_harness!(k_wyckoff_new_p2mm, p2mm);
wyckoff_harness!(k_wyckoff_new_p2mg, p2mg);
wyckoff_harness!(k_wyckoff_new_p2gg, p2gg);

/// C17 "anything else is reported as an error": a table with a malformed string does not yield a site
#[kani::proof]
#[kani::unwind(40)]
fn k_wyckoff_new_bad() {
    let wg = WallpaperGroup { name: "bad", family: CrystalFamily::Monoclinic, wyckoff_str: vec!["x,y", "x"] };
    assert!(WyckoffSite::new(&wg).is_err());
    kani::cover!(true);
}
