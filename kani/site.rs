// Kani harnesses for site.rs (cfg(kani) only)
use super::*;
use crate::traits::Basis;
use crate::basis::verif_kani::bounds;

fn a_site() -> OccupiedSite {
    OccupiedSite {
        wyckoff: WyckoffSite { letter: 'a', symmetries: vec![Transform2::identity()], num_rotations: 1, mirror_primary: false, mirror_secondary: false },
        x: SharedValue::new(kani::any()), y: SharedValue::new(kani::any()), angle: SharedValue::new(kani::any()),
    }
}

/// K:k_site_basis — C08: site handles are x, y in [-1/2, 1/2] and the orientation in [0, 2 pi / rot]
#[kani::proof]
#[kani::unwind(20)]
fn k_site_basis() {
    let site = a_site();
    let (x0, y0, a0) = (site.x.get_value(), site.y.get_value(), site.angle.get_value());
    let rot: u64 = kani::any();
    kani::assume(1 <= rot && rot <= 12);
    let mut b = site.get_basis(rot);
    assert!(b.len() == 3);
    assert!(bounds(&b[0]).0 == -0.5 && bounds(&b[0]).1 == 0.5 && b[0].get_value().to_bits() == x0.to_bits());
    assert!(bounds(&b[1]).0 == -0.5 && bounds(&b[1]).1 == 0.5 && b[1].get_value().to_bits() == y0.to_bits());
    assert!(bounds(&b[2]).0 == 0. && bounds(&b[2]).1 == 2. * std::f64::consts::PI / rot as f64 && b[2].get_value().to_bits() == a0.to_bits());
    let (p, q, r): (f64, f64, f64) = (kani::any(), kani::any(), kani::any());
    kani::assume(!p.is_nan() && !q.is_nan() && !r.is_nan());
    b[0].set_value(p);
    assert!(site.y.get_value().to_bits() == y0.to_bits() && site.angle.get_value().to_bits() == a0.to_bits());
    b[1].set_value(q);
    b[2].set_value(r);
    let (x, y, a) = (site.x.get_value(), site.y.get_value(), site.angle.get_value());
    assert!(-0.5 <= x && x <= 0.5 && -0.5 <= y && y <= 0.5);
    assert!(0. <= a && a <= 2. * std::f64::consts::PI);
    kani::cover!(rot == 1);
}

/// K:k_clone_site — C10: cloning a site gives fresh cells
#[kani::proof]
#[kani::unwind(20)]
fn k_clone_site() {
    let site = a_site();
    let (x0, y0, a0) = (site.x.get_value(), site.y.get_value(), site.angle.get_value());
    let copy = site.clone();
    assert!(copy.x.get_value().to_bits() == x0.to_bits() && copy.y.get_value().to_bits() == y0.to_bits() && copy.angle.get_value().to_bits() == a0.to_bits());
    assert!(copy.multiplicity() == site.multiplicity());
    let v: f64 = kani::any();
    copy.x.set_value(v); copy.y.set_value(v); copy.angle.set_value(v);
    assert!(site.x.get_value().to_bits() == x0.to_bits() && site.y.get_value().to_bits() == y0.to_bits() && site.angle.get_value().to_bits() == a0.to_bits());
    kani::cover!(true);
}
