// Kani harnesses for basis.rs (compiled only under cfg(kani); included by a #[path] hook in /repo/src/basis.rs).
// Bit-precise, real UnsafeCell pointers, every f64 bit pattern.  Loop-free => complete.
use super::*;
use crate::traits::Basis;

/// K:basis:set_reset — C06 (restore point, bitwise restore, frame), C08 (clamp into [min,max])
#[kani::proof]
fn k_basis_set_reset() {
    let v0: f64 = kani::any();
    let w0: f64 = kani::any();
    let cell = SharedValue::new(v0);
    let other = SharedValue::new(w0);
    let min: f64 = kani::any();
    let max: f64 = kani::any();
    kani::assume(min <= max); // a handle's bounds are ordered numbers (established by get_degrees_of_freedom / get_basis)
    let mut b = StandardBasis::new(&cell, min, max);
    assert!(b.old.to_bits() == v0.to_bits()); // new.old
    let x: f64 = kani::any();
    b.set_value(x);
    // post.old: the restore point is the value before the write, bit for bit
    assert!(b.old.to_bits() == v0.to_bits());
    // post.clamp: what the cell now holds
    let got = cell.get_value();
    if x < min {
        assert!(got.to_bits() == min.to_bits());
    } else if x > max {
        assert!(got.to_bits() == max.to_bits());
    } else {
        assert!(got.to_bits() == x.to_bits());
    }
    // post.range (C08): any numeric proposal lands in [min, max]
    if !x.is_nan() {
        assert!(min <= got && got <= max);
    }
    // frame: bounds unchanged, no other cell written
    assert!(b.min.to_bits() == min.to_bits() && b.max.to_bits() == max.to_bits());
    assert!(other.get_value().to_bits() == w0.to_bits());
    assert!(b.get_value().to_bits() == got.to_bits());
    // reset restores the bits before the proposal and touches nothing else
    b.reset_value();
    assert!(cell.get_value().to_bits() == v0.to_bits());
    assert!(other.get_value().to_bits() == w0.to_bits());
    assert!(b.min.to_bits() == min.to_bits() && b.max.to_bits() == max.to_bits());
    kani::cover!(x < min);
    kani::cover!(x > max);
    kani::cover!(x.is_nan());
    kani::cover!(true);
}

/// K:basis:two_handles — two handles on distinct cells never interfere (R8 aliasing model, C06)
#[kani::proof]
fn k_basis_two_handles() {
    let a0: f64 = kani::any();
    let b0: f64 = kani::any();
    let ca = SharedValue::new(a0);
    let cb = SharedValue::new(b0);
    let mut ha = StandardBasis::new(&ca, -0.5, 0.5);
    let mut hb = StandardBasis::new(&cb, 0.01, 4.);
    let x: f64 = kani::any();
    let y: f64 = kani::any();
    ha.set_value(x);
    let a1 = ca.get_value();
    hb.set_value(y);
    assert!(ca.get_value().to_bits() == a1.to_bits());
    hb.reset_value();
    assert!(ca.get_value().to_bits() == a1.to_bits());
    assert!(cb.get_value().to_bits() == b0.to_bits());
    ha.reset_value();
    assert!(ca.get_value().to_bits() == a0.to_bits());
    assert!(cb.get_value().to_bits() == b0.to_bits());
    kani::cover!(true);
}

/// read access to a handle's bounds for the harness modules of other files (fields are private to basis.rs)
pub(crate) fn bounds(b: &StandardBasis) -> (f64, f64) { (b.min, b.max) }
