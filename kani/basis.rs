// Kani harnesses for basis.rs (compiled only under cfg(kani); included by a #[path] hook in /repo/src/basis.rs).
// Bit-precise, real UnsafeCell pointers, every f64 bit pattern.  Loop-free => complete.
use super::*;
use crate::traits::Basis;

/// K:basis:set_reset — C06 (restore point, bitwise restore, frame), C08 (clamp into [min,max])
#[kani::proof]
fn k_basis_set_reset() {
    let v0: f64 = kani::any();
    let w0: f64 = kani::any();
    let cell = SharedValue::new(v0);
    let other = SharedValue::new(w0);
    let min: f64 = kani::any();
    let max: f64 = kani::any();
    kani::assume(min <= max); // a handle's bounds are ordered numbers (established by get_degrees_of_freedom / get_basis)
    let mut b = StandardBasis::new(&cell, min, max);
    assert!(b.old.to_bits() == v0.to_bits()); // new.old
    let x: f64 = kani::any();
    b.set_value(x);
    // post.old: the restore point is the value before the write, bit for bit
    assert!(b.old.to_bits() == v0.to_bits());
    // post.clamp: what the cell now holds
    let got = cell.get_value();
    if x < min {
        assert!(got.to_bits() == min.to_bits());
    } else if x > max {
        assert!(got.to_bits() == max.to_bits());
    } else {
        assert!(got.to_bits() == x.to_bits());
    }
    // post.range (C08): any numeric proposal lands in [min, max]
    if !x.is_nan() {
        assert!(min <= got && got <= max);
    }
    // frame: bounds unchanged, no other cell written
    assert!(b.min.to_bits() == min.to_bits() && b.max.to_bits() == max.to_bits());
    assert!(other.get_value().to_bits() == w0.to_bits());
    assert!(b.get_value().to_bits() == got.to_bits());
    // reset restores the bits before the proposal and touches nothing else
    b.reset_value();
    assert!(cell.get_value().to_bits() == v0.to_bits());
    assert!(other.get_value().to_bits() == w0.to_bits());
    assert!(b.min.to_bits() == min.to_bits() && b.max.to_bits() == max.to_bits());
    kani::cover!(x < min);
    kani::cover!(x > max);
    kani::cover!(x.is_nan());
    kani::cover!(true);
}

/// K:basis:two_handles — two handles on distinct cells never interfere (R8 aliasing model, C06)
#[kani::proof]
fn k_basis_two_handles() {
    let a0: f64 = kani::any();
    let b0: f64 = kani::any();
    let ca = SharedValue::new(a0);
    let cb = SharedValue::new(b0);
    let mut ha = StandardBasis::new(&ca, -0.5, 0.5);
    let mut hb = StandardBasis::new(&cb, 0.01, 4.);
    let x: f64 = kani::any();
    let y: f64 = kani::any();
    ha.set_value(x);
    let a1 = ca.get_value();
    hb.set_value(y);
    assert!(ca.get_value().to_bits() == a1.to_bits());
    hb.reset_value();
    assert!(ca.get_value().to_bits() == a1.to_bits());
    assert!(cb.get_value().to_bits() == b0.to_bits());
    ha.reset_value();
    assert!(ca.get_value().to_bits() == a0.to_bits());
    assert!(cb.get_value().to_bits() == b0.to_bits());
    kani::cover!(true);
}

/// read access to a handle's bounds for the harness modules of other files (fields are private to basis.rs)
pub(crate) fn bounds(b: &StandardBasis) -> (f64, f64) { (b.min, b.max) }

// ---------------------------------------------------------------- serde glue (C11)
mod serde_probe {
    use super::*;
    use serde::de::{self, Deserializer, Visitor};
    use serde::ser::{self, Impossible, Serializer};
    use serde::{Deserialize, Serialize};
    use std::fmt;

    #[derive(Debug)]
    pub struct PErr;
    impl fmt::Display for PErr { fn fmt(&self, _: &mut fmt::Formatter) -> fmt::Result { Ok(()) } }
    impl std::error::Error for PErr {}
    impl ser::Error for PErr { fn custom<T: fmt::Display>(_: T) -> Self { PErr } }
    impl de::Error for PErr { fn custom<T: fmt::Display>(_: T) -> Self { PErr } }

    /// records every serialize_f64 call; every other call is an error
    pub struct ProbeSer<'a> { pub calls: &'a mut u32, pub bits: &'a mut u64 }
    impl<'a> Serializer for ProbeSer<'a> {
        type Ok = ();
        type Error = PErr;
        type SerializeSeq = Impossible<(), PErr>;
        type SerializeTuple = Impossible<(), PErr>;
        type SerializeTupleStruct = Impossible<(), PErr>;
        type SerializeTupleVariant = Impossible<(), PErr>;
        type SerializeMap = Impossible<(), PErr>;
        type SerializeStruct = Impossible<(), PErr>;
        type SerializeStructVariant = Impossible<(), PErr>;
        fn serialize_f64(self, v: f64) -> Result<(), PErr> { *self.calls += 1; *self.bits = v.to_bits(); Ok(()) }
        fn serialize_bool(self, _: bool) -> Result<(), PErr> { Err(PErr) }
        fn serialize_i8(self, _: i8) -> Result<(), PErr> { Err(PErr) }
        fn serialize_i16(self, _: i16) -> Result<(), PErr> { Err(PErr) }
        fn serialize_i32(self, _: i32) -> Result<(), PErr> { Err(PErr) }
        fn serialize_i64(self, _: i64) -> Result<(), PErr> { Err(PErr) }
        fn serialize_u8(self, _: u8) -> Result<(), PErr> { Err(PErr) }
        fn serialize_u16(self, _: u16) -> Result<(), PErr> { Err(PErr) }
        fn serialize_u32(self, _: u32) -> Result<(), PErr> { Err(PErr) }
        fn serialize_u64(self, _: u64) -> Result<(), PErr> { Err(PErr) }
        fn serialize_f32(self, _: f32) -> Result<(), PErr> { Err(PErr) }
        fn serialize_char(self, _: char) -> Result<(), PErr> { Err(PErr) }
        fn serialize_str(self, _: &str) -> Result<(), PErr> { Err(PErr) }
        fn serialize_bytes(self, _: &[u8]) -> Result<(), PErr> { Err(PErr) }
        fn serialize_none(self) -> Result<(), PErr> { Err(PErr) }
        fn serialize_some<T: ?Sized + Serialize>(self, _: &T) -> Result<(), PErr> { Err(PErr) }
        fn serialize_unit(self) -> Result<(), PErr> { Err(PErr) }
        fn serialize_unit_struct(self, _: &'static str) -> Result<(), PErr> { Err(PErr) }
        fn serialize_unit_variant(self, _: &'static str, _: u32, _: &'static str) -> Result<(), PErr> { Err(PErr) }
        fn serialize_newtype_struct<T: ?Sized + Serialize>(self, _: &'static str, _: &T) -> Result<(), PErr> { Err(PErr) }
        fn serialize_newtype_variant<T: ?Sized + Serialize>(self, _: &'static str, _: u32, _: &'static str, _: &T) -> Result<(), PErr> { Err(PErr) }
        fn serialize_seq(self, _: Option<usize>) -> Result<Self::SerializeSeq, PErr> { Err(PErr) }
        fn serialize_tuple(self, _: usize) -> Result<Self::SerializeTuple, PErr> { Err(PErr) }
        fn serialize_tuple_struct(self, _: &'static str, _: usize) -> Result<Self::SerializeTupleStruct, PErr> { Err(PErr) }
        fn serialize_tuple_variant(self, _: &'static str, _: u32, _: &'static str, _: usize) -> Result<Self::SerializeTupleVariant, PErr> { Err(PErr) }
        fn serialize_map(self, _: Option<usize>) -> Result<Self::SerializeMap, PErr> { Err(PErr) }
        fn serialize_struct(self, _: &'static str, _: usize) -> Result<Self::SerializeStruct, PErr> { Err(PErr) }
        fn serialize_struct_variant(self, _: &'static str, _: u32, _: &'static str, _: usize) -> Result<Self::SerializeStructVariant, PErr> { Err(PErr) }
    }

    /// feeds one number to the visitor, as f64 or (when `narrow`) as f32 — the two ways a self-describing format may present a float
    pub struct ProbeDe { pub v: f64, pub narrow: Option<f32> }
    impl<'de> Deserializer<'de> for ProbeDe {
        type Error = PErr;
        fn deserialize_any<V: Visitor<'de>>(self, visitor: V) -> Result<V::Value, PErr> {
            match self.narrow { Some(x) => visitor.visit_f32(x), None => visitor.visit_f64(self.v) }
        }
        serde::forward_to_deserialize_any! {
            bool i8 i16 i32 i64 u8 u16 u32 u64 f32 f64 char str string bytes byte_buf option unit unit_struct
            newtype_struct seq tuple tuple_struct map struct enum identifier ignored_any
        }
    }

    /// K:k_serde_f64 — C11: SharedValue's hand-written glue passes the cell's bits through unchanged in both directions
    #[kani::proof]
    fn k_serde_f64() {
        let x: f64 = kani::any();
        let cell = SharedValue::new(x);
        let (mut calls, mut bits) = (0u32, 0u64);
        let r = cell.serialize(ProbeSer { calls: &mut calls, bits: &mut bits });
        assert!(r.is_ok());
        assert!(calls == 1);                // exactly one number is emitted
        assert!(bits == x.to_bits());       // and it is the cell's value, bit for bit (no narrowing to f32)
        let back = SharedValue::deserialize(ProbeDe { v: x, narrow: None });
        assert!(back.is_ok());
        assert!(back.unwrap().get_value().to_bits() == x.to_bits());
        // a format that presents the number as f32 is widened exactly
        let y: f32 = kani::any();
        let back32 = SharedValue::deserialize(ProbeDe { v: 0., narrow: Some(y) });
        assert!(back32.is_ok());
        assert!(back32.unwrap().get_value().to_bits() == (y as f64).to_bits());
        kani::cover!(x.is_nan());
        kani::cover!(x == 0.1);
    }
}
