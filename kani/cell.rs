// Kani harnesses for cell.rs (cfg(kani) only)
use super::*;
use crate::traits::Basis;
use crate::basis::verif_kani::bounds;

fn any_family() -> CrystalFamily {
    let k: u8 = kani::any();
    kani::assume(k < 4);
    match k { 0 => CrystalFamily::Monoclinic, 1 => CrystalFamily::Orthorhombic, 2 => CrystalFamily::Hexagonal, _ => CrystalFamily::Tetragonal }
}
fn any_cell() -> Cell2 {
    Cell2 { length: SharedValue::new(kani::any()), ratio: SharedValue::new(kani::any()), angle: SharedValue::new(kani::any()), family: any_family() }
}

/// K:k_cell_dof — C08/C04: which cell parameters may move, and inside which bounds, for every family and every
/// bit pattern of the current values; writes through the handles reach exactly the advertised fields.
#[kani::proof]
#[kani::unwind(5)]
fn k_cell_dof() {
    let cell = any_cell();
    let (l0, r0, a0) = (cell.length.get_value(), cell.ratio.get_value(), cell.angle.get_value());
    let mut basis = cell.get_degrees_of_freedom();
    let n = basis.len();
    match cell.family {
        CrystalFamily::Monoclinic => assert!(n == 3),
        CrystalFamily::Orthorhombic => assert!(n == 2),
        _ => assert!(n == 1),
    }
    // handle 0: the cell length in [0.01, starting length]
    assert!(bounds(&basis[0]).0 == 0.01 && bounds(&basis[0]).1.to_bits() == l0.to_bits() && basis[0].get_value().to_bits() == l0.to_bits());
    if n >= 2 {
        // handle 1: the side ratio in [0.1, starting ratio]
        assert!(bounds(&basis[1]).0 == 0.1 && bounds(&basis[1]).1.to_bits() == r0.to_bits() && basis[1].get_value().to_bits() == r0.to_bits());
    }
    if n == 3 {
        // handle 2: the cell angle in [pi/6, pi/2]
        assert!(bounds(&basis[2]).0 == std::f64::consts::PI / 6. && bounds(&basis[2]).1 == std::f64::consts::PI / 2. && basis[2].get_value().to_bits() == a0.to_bits());
    }
    // arbitrary writes through every handle
    let (x0, x1, x2): (f64, f64, f64) = (kani::any(), kani::any(), kani::any());
    kani::assume(!x0.is_nan() && !x1.is_nan() && !x2.is_nan());
    basis[0].set_value(x0);
    if n >= 2 { basis[1].set_value(x1); }
    if n == 3 { basis[2].set_value(x2); }
    // frame: a parameter without a handle keeps its bits (cell stays in its crystal family)
    if n < 3 { assert!(cell.angle.get_value().to_bits() == a0.to_bits()); }
    if n < 2 { assert!(cell.ratio.get_value().to_bits() == r0.to_bits()); }
    // range: provided the starting values are valid (C08 chaining: bounds are re-derived from the current values)
    if l0 >= 0.01 { let l = cell.length.get_value(); assert!(0.01 <= l && l <= l0); }
    if n >= 2 && r0 >= 0.1 { let r = cell.ratio.get_value(); assert!(0.1 <= r && r <= r0); }
    if n == 3 { let a = cell.angle.get_value(); assert!(std::f64::consts::PI / 6. <= a && a <= std::f64::consts::PI / 2.); }
    kani::cover!(n == 1);
    kani::cover!(n == 2);
    kani::cover!(n == 3);
}

/// K:k_cell_from_family — C08/C04: initial cell of each family
#[kani::proof]
fn k_cell_from_family() {
    let fam = any_family();
    let len: f64 = kani::any();
    let cell = Cell2::from_family(fam, len);
    assert!(cell.length.get_value().to_bits() == len.to_bits());
    assert!(cell.ratio.get_value() == 1.0);
    assert!(cell.family == fam);
    if fam == CrystalFamily::Hexagonal { assert!(cell.angle.get_value() == std::f64::consts::PI / 3.); }
    else { assert!(cell.angle.get_value() == std::f64::consts::PI / 2.); }
    kani::cover!(fam == CrystalFamily::Hexagonal);
    kani::cover!(fam == CrystalFamily::Orthorhombic);
}

/// K:k_clone_cell — C10 (and the sequential half of C09): a clone holds equal values in fresh cells
#[kani::proof]
#[kani::unwind(8)]
fn k_clone_cell() {
    let cell = any_cell();
    let (l0, r0, a0) = (cell.length.get_value(), cell.ratio.get_value(), cell.angle.get_value());
    let copy = cell.clone();
    assert!(copy.length.get_value().to_bits() == l0.to_bits() && copy.ratio.get_value().to_bits() == r0.to_bits()
        && copy.angle.get_value().to_bits() == a0.to_bits() && copy.family == cell.family);
    // optimising the copy never changes the original
    let mut b = copy.get_degrees_of_freedom();
    let x: f64 = kani::any();
    let mut i = 0;
    while i < b.len() { b[i].set_value(x); i += 1; }
    copy.length.set_value(x); copy.ratio.set_value(x); copy.angle.set_value(x);
    assert!(cell.length.get_value().to_bits() == l0.to_bits() && cell.ratio.get_value().to_bits() == r0.to_bits()
        && cell.angle.get_value().to_bits() == a0.to_bits());
    kani::cover!(true);
}
