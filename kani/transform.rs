// Kani harnesses for transform.rs (cfg(kani) only)
use super::*;

/// K:k_wrap — C15/C01: bit-precise range of Transform2::periodic(1., -0.5) for every double with |x| <= 8
/// (site coordinates lie in [-1/2,1/2] and table entries in {0, +-1, +-1/2}, so |x| <= 2 is all that occurs).
#[kani::proof]
fn k_wrap_range() {
    let x: f64 = kani::any();
    let y: f64 = kani::any();
    kani::assume(-8. <= x && x <= 8.);
    kani::assume(-8. <= y && y <= 8.);
    // a symmetry-operation-like transform: linear part arbitrary signs, bottom row zero (as from_operations leaves it)
    let mut m = nalgebra::Matrix3::<f64>::zeros();
    m[(0, 0)] = if kani::any() { 1. } else { -1. };
    m[(1, 1)] = if kani::any() { 1. } else { -1. };
    m[(0, 2)] = x;
    m[(1, 2)] = y;
    let t = Transform2::from(m);
    let w = t.periodic(1., -0.5);
    let p = w.position();
    assert!(-0.5 <= p.x && p.x < 0.5);
    assert!(-0.5 <= p.y && p.y < 0.5);
    // linear part and bottom row untouched, bit for bit
    let wm: nalgebra::Matrix3<f64> = w.into();
    assert!(wm[(0, 0)].to_bits() == m[(0, 0)].to_bits() && wm[(1, 1)].to_bits() == m[(1, 1)].to_bits());
    assert!(wm[(0, 1)].to_bits() == m[(0, 1)].to_bits() && wm[(1, 0)].to_bits() == m[(1, 0)].to_bits());
    assert!(wm[(2, 0)] == 0. && wm[(2, 1)] == 0. && wm[(2, 2)] == 0.);
    kani::cover!(x == 0.5);   // the closed upper bound of the site range wraps to -0.5
    kani::cover!(x == -0.5);
    kani::cover!(p.x == -0.5);
}

/// K:k_shim_transform — sanity check of the nalgebra shim used by the Verus units (not a proof of nalgebra):
/// Transform*Transform is the 3x3 matrix product and Transform*Point is affine when the bottom row is (0,0,w), w in {0,1}
#[kani::proof]
fn k_shim_transform() {
    let v = |k: i8| -> f64 { k as f64 * 0.5 };
    let (a, b, c, d, e, f): (i8, i8, i8, i8, i8, i8) = (kani::any(), kani::any(), kani::any(), kani::any(), kani::any(), kani::any());
    kani::assume(-2 <= a && a <= 2 && -2 <= b && b <= 2 && -2 <= c && c <= 2 && -2 <= d && d <= 2 && -2 <= e && e <= 2 && -2 <= f && f <= 2);
    let w1: f64 = if kani::any() { 1. } else { 0. };
    let mut m1 = nalgebra::Matrix3::<f64>::zeros();
    m1[(0, 0)] = v(a); m1[(0, 1)] = v(b); m1[(0, 2)] = v(c); m1[(1, 0)] = v(d); m1[(1, 1)] = v(e); m1[(1, 2)] = v(f); m1[(2, 2)] = w1;
    let t1 = Transform2::from(m1);
    let t2 = Transform2::new(0., (0.5, -1.5));
    let p = nalgebra::Point2::new(v(b), v(c));
    let q = t1 * p;
    assert!(q.x == v(a) * p.x + v(b) * p.y + v(c));
    assert!(q.y == v(d) * p.x + v(e) * p.y + v(f));
    let pm: nalgebra::Matrix3<f64> = (t1 * t2).into();
    assert!(pm[(0, 2)] == v(a) * 0.5 + v(b) * -1.5 + v(c) * 1.);
    assert!(pm[(1, 2)] == v(d) * 0.5 + v(e) * -1.5 + v(f) * 1.);
    assert!(pm[(0, 0)] == v(a) && pm[(0, 1)] == v(b) && pm[(1, 0)] == v(d) && pm[(1, 1)] == v(e));
    assert!(pm[(2, 2)] == w1 && pm[(2, 0)] == 0. && pm[(2, 1)] == 0.);
    assert!(t1.position().x == v(c) && t1.position().y == v(f));
    kani::cover!(w1 == 0.);
}

// ---------------------------------------------------------------- from_operations on sample strings of the grammar (C17, BOUNDED)
fn expect_op(s: &str, want: [f64; 6]) {
    let t = Transform2::from_operations(s);
    assert!(t.is_ok());
    let m: nalgebra::Matrix3<f64> = t.unwrap().into();
    assert!(m[(0, 0)] == want[0] && m[(0, 1)] == want[1] && m[(0, 2)] == want[2]);
    assert!(m[(1, 0)] == want[3] && m[(1, 1)] == want[4] && m[(1, 2)] == want[5]);
    assert!(m[(2, 0)] == 0. && m[(2, 1)] == 0. && m[(2, 2)] == 0.);
    kani::cover!(true);
}
macro_rules! parse_harness {
    ($name:ident, $s:expr, $want:expr) => {
        #[kani::proof]
        #[kani::unwind(40)]
        fn $name() { expect_op($s, $want); }
    };
}
// (x', y') = (a x + b y + s, c x + d y + t)  as [a, b, s, c, d, t]
parse_harness!(k_parse_swap, "-y, x", [0., -1., 0., 1., 0., 0.]);
parse_harness!(k_parse_parens, "(x, y)", [1., 0., 0., 0., 1., 0.]);
parse_harness!(k_parse_const_first, "1/2-x, y+3/4", [-1., 0., 0.5, 0., 1., 0.75]);
parse_harness!(k_parse_neg_const, "x-1/2, -y", [1., 0., -0.5, 0., -1., 0.]);
parse_harness!(k_parse_mixed, "x-y, x", [1., -1., 0., 1., 0., 0.]);

/// anything else is an error, never a crash
macro_rules! reject_harness {
    ($name:ident, $s:expr) => {
        #[kani::proof]
        #[kani::unwind(40)]
        fn $name() { let t = Transform2::from_operations($s); assert!(t.is_err()); kani::cover!(true); }
    };
}
reject_harness!(k_parse_reject_one, "x");
reject_harness!(k_parse_reject_three, "x,y,z");
// a rejected *letter* goes through `bail!` with a format string, which CBMC does not finish within 7 minutes: not offered
