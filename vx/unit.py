"""Build one Verus unit from a .unit template: verbatim spec/shim text + mechanically
extracted real functions (rules R1..R16 of DESIGN 3.2) + spliced contract clauses.

Template directives (column 0):
  @unit NAME
  @include FILE                     prelude file from /verif/prelude (verbatim, trusted/spec text)
  @rules ID ID ...                  rule groups (rules.py) applied to every following extraction
  @cast "expr" CONVERTER            R2 table entry:  `expr as f64` -> F::CONVERTER(expr)
  @prooffn[id|Cxx] ... @end         a proof fn counted as an obligation of the listed properties
  @gen NAME ARGS                    spec text generated from the working tree by vx/gen.py (code-derived shapes)
  @verbatim ... @end                hand-written Verus text (spec fns, shims, impl wrappers, lemmas)
  @struct FILE NAME                 extract a struct definition
  @fn FILE IMPL_RE NAME [opts]      extract a function; IMPL_RE '-' = free function
  @macrofn FILE MACRO ARG_RE SIG    extract the body of a binop_impl_all! arm as `fn SIG {BODY}` (R12)
  @slice FILE IMPL_RE NAME START_RE END_RE SIG
                                    R13: statement slice of a function turned into a function
 after @fn/@macrofn/@slice, until the next column-0 directive that is not one of these:
  @props C05 C06 ...                properties served by unlabelled obligations of this function
  @ret NAME                         name the return value
  @rule ID /regex/ => replacement   function-specific rewrite (counted under ID)
  @requires[id|Cxx,Cyy] text        (continuation lines are indented)
  @ensures[id|Cxx] text
  @decreases text
  @loop K invariant[id|Cxx] text    K = ordinal of the loop in the function text (1-based)
  @loop K decreases text
  @before[/N] "needle"              following indented lines are inserted before the N-th line containing needle
  @after[/N] "needle"               ... after that line
  @sigfix /regex/ => replacement    rewrite restricted to the signature
"""
import os
import re
import json
from . import rustsrc as R
from .rustsrc import ExtractError
from . import rules as RULES
from . import gen as GEN

VERIF = os.path.dirname(os.path.dirname(os.path.abspath(__file__)))
TAG = "/*@*/"


class Clause:
    def __init__(self, kind, cid, props, text, fn, where=None):
        self.kind, self.id, self.props, self.text, self.fn, self.where = kind, cid, props, text, fn, where
        self.lines = []  # generated line numbers


class Unit:
    def __init__(self, name):
        self.name = name
        self.out = []          # list of (text_line, origin) ; origin = ('spec',tmpl_line) | ('src',file,line,fn) | ('clause',Clause)
        self.clauses = []
        self.functions = []    # dict(name, file, line_start, line_end, props)
        self.rule_counts = {}
        self.trusted = []      # external_body / axiom / assume lines
        self.casts = {}
        self.lemmas = []
        self.lost_hints = {}
        self.lost_fns = set()  # functions whose body is in the unit but lost an optional proof hint: their failures are undecided
        self.canaries = []
        self.canary = False
        self.imports = []   # (unit, fn, clause id): clauses of other units assumed here by a shim, text taken from that unit

    def emit(self, text, origin):
        for l in text.split("\n"):
            self.out.append((l, origin))

    def text(self):
        return "\n".join(l for l, _ in self.out) + "\n"

    def origin_of(self, line_no):
        if 1 <= line_no <= len(self.out):
            return self.out[line_no - 1][1]
        return None


def _parse_label(s):
    """'[id|C01,C02]' -> (id, [props])"""
    m = re.match(r"\[([^\]|]*)(?:\|([^\]]*))?\]", s)
    if not m:
        return None, [], s
    props = [p for p in (m.group(2) or "").split(",") if p]
    return m.group(1), props, s[m.end():]


def _split_rule(s):
    m = re.match(r"\s*(\S+)\s+/(.*)/\s*=>\s?(.*)$", s, re.S)
    if not m:
        raise ExtractError("bad @rule: " + s)
    return m.group(1), m.group(2), m.group(3)


class FnSpec:
    def __init__(self):
        self.props = []
        self.ret = None
        self.rules = []
        self.prerules = []
        self.sigfix = []
        self.sig = []      # Clause
        self.loops = {}    # k -> [Clause]
        self.inserts = []  # (where, nth, needle, [lines])


def clause_text(unit, fn, cid):
    """the text of clause `cid` of function `fn` in units/<unit>.unit (single source for a shim in another unit that assumes it)"""
    lines = open(os.path.join(VERIF, "units", unit + ".unit")).read().split("\n")
    cur = None
    for i, l in enumerate(lines):
        if l.startswith(("@fn ", "@slice ", "@macrofn ", "@closure ")):
            cur = l.split()[3] if l.startswith("@fn ") else None
        m = re.match(r"@(?:ensures|requires)\[%s(?:\|[^\]]*)?\]\s*(.*)$" % re.escape(cid), l)
        if m and cur == fn:
            txt = [m.group(1)]
            j = i + 1
            while j < len(lines) and lines[j].startswith((" ", "\t")):
                txt.append(lines[j].strip()); j += 1
            return " ".join(txt)
    return None


def _import_clauses(line, u, unit_path, lineno):
    """`@clause(unit:fn:id)` inside verbatim text -> the text of that clause, proved in the other unit as V:unit:fn:id"""
    def rep(m):
        t = clause_text(m.group(1), m.group(2), m.group(3))
        if t is None:
            raise ExtractError("%s:%d: imported clause %s not found" % (os.path.basename(unit_path), lineno, m.group(0)))
        u.imports.append((m.group(1), m.group(2), m.group(3)))
        return t
    return re.sub(r"@clause\((\w+):(\w+):([\w.]+)\)", rep, line)


def build(unit_path, repo, canary=False):
    tmpl = open(unit_path).read().split("\n")
    u = Unit(os.path.splitext(os.path.basename(unit_path))[0])
    u.canary = canary
    groups = []
    i = 0
    n = len(tmpl)

    def cont_lines(i):
        """collect continuation (indented or blank-within) lines after line i"""
        buf = []
        j = i + 1
        while j < n and (tmpl[j].startswith((" ", "\t")) or (tmpl[j] == "" and j + 1 < n and tmpl[j + 1].startswith((" ", "\t")))):
            buf.append(tmpl[j])
            j += 1
        return buf, j

    while i < n:
        line = tmpl[i]
        if not line.startswith("@"):
            if line.strip() and not line.startswith("#"):
                raise ExtractError("%s:%d: text outside @verbatim" % (unit_path, i + 1))
            i += 1
            continue
        parts = line.split(None, 1)
        d = parts[0]
        arg = parts[1] if len(parts) > 1 else ""
        if d == "@unit":
            u.name = arg.strip(); i += 1
        elif d == "@include":
            p = os.path.join(VERIF, "prelude", arg.strip())
            txt = open(p).read().rstrip("\n")
            u.emit(txt, ("spec", "prelude/" + arg.strip()))
            i += 1
        elif d == "@lemma":
            from . import lemma as LM
            toks = arg.split()
            L = LM.load(toks[0])
            u.emit(LM.verus_axiom(L, spec_names=set(toks[1:])), ("spec", "lemmas/%s.lem" % toks[0]))
            u.lemmas.append(toks[0])
            i += 1
        elif d == "@opimpl":
            # @opimpl LHS RHS OUT METHOD SPECFN : `impl Mul<RHS> for LHS` in the four value/reference combinations,
            # each forwarding to the extracted inherent method LHS::METHOD(&self, &RHS) whose postcondition is SPECFN(lhs, rhs, r)
            L_, R_, O_, M_, S_ = arg.split()
            buf = []
            for lref in (False, True):
                for rref in (False, True):
                    lt = ("&'a " + L_) if lref else L_
                    rt = ("&'b " + R_) if rref else R_
                    gens = [g for g, on in (("'a", lref), ("'b", rref)) if on]
                    gp = ("<" + ", ".join(gens) + ">") if gens else ""
                    la = "*self" if lref else "self"
                    ra = "*rhs" if rref else "rhs"
                    buf.append("impl%s vstd::std_specs::ops::MulSpecImpl<%s> for %s {\n    open spec fn obeys_mul_spec() -> bool { false }\n    open spec fn mul_req(self, rhs: %s) -> bool { true }\n    open spec fn mul_spec(self, rhs: %s) -> %s { arbitrary() }\n}" % (gp, rt, lt, rt, rt, O_))
                    buf.append("impl%s Mul<%s> for %s { type Output = %s;\n    fn mul(self, rhs: %s) -> (r: %s) ensures %s(%s, %s, r) { %s.%s(%s) } }" % (
                        gp, rt, lt, O_, rt, O_, S_, la, ra, "self" if lref else "(&self)", M_, "rhs" if rref else "&rhs"))
            u.emit("\n".join(buf), ("spec", "%s:%d (operator forwarding impls, R12)" % (os.path.basename(unit_path), i + 1)))
            _count(u, "R12", 4)
            i += 1
        elif d == "@rules":
            groups = arg.split(); i += 1
        elif d == "@cast":
            m = re.match(r'\s*"([^"]*)"\s+(\w+)', arg)
            u.casts[m.group(1)] = m.group(2); i += 1
        elif d.startswith("@prooffn"):
            # a proof function that IS an obligation of the listed properties (a consequence the property states, proved from contracts)
            cid, props, _ = _parse_label(d[len("@prooffn"):])
            j = i + 1
            buf = []
            while tmpl[j] != "@end":
                buf.append(tmpl[j]); j += 1
                if j >= n:
                    raise ExtractError("%s:%d: unterminated @prooffn" % (unit_path, i + 1))
            text = "\n".join(buf)
            mname = re.search(r"proof\s+fn\s+(\w+)", text)
            if not mname:
                raise ExtractError("%s:%d: @prooffn without a proof fn" % (unit_path, i + 1))
            cl = Clause("lemma", cid, props, text, mname.group(1))
            u.clauses.append(cl)
            first = len(u.out) + 1
            u.emit(text, ("clause", cl))
            cl.lines = list(range(first, len(u.out) + 1))
            i = j + 1
        elif d == "@gen":
            gname, _, gargs = arg.strip().partition(" ")
            u.emit(GEN.GENERATORS[gname](repo, gargs), ("spec", "%s:%d (generated by vx/gen.py:%s from the working tree)" % (os.path.basename(unit_path), i + 1, gname)))
            u.rule_counts["Rgen:" + gname] = u.rule_counts.get("Rgen:" + gname, 0) + 1
            i += 1
        elif d == "@verbatim":
            j = i + 1
            buf = []
            while tmpl[j] != "@end":
                buf.append(tmpl[j]); j += 1
                if j >= n:
                    raise ExtractError("%s:%d: unterminated @verbatim" % (unit_path, i + 1))
            buf = [_import_clauses(l, u, unit_path, i + 2 + k_) for k_, l in enumerate(buf)]
            u.emit("\n".join(buf), ("spec", "%s:%d" % (os.path.basename(unit_path), i + 2)))
            i = j + 1
        elif d in ("@fn", "@macrofn", "@slice", "@struct", "@closure"):
            # collect the function's own directives
            spec = FnSpec()
            j = i + 1
            while j < n:
                l = tmpl[j]
                if not l.startswith("@"):
                    if l.strip() == "" or l.startswith("#"):
                        j += 1; continue
                    raise ExtractError("%s:%d: stray text" % (unit_path, j + 1))
                p2 = l.split(None, 1)
                dd = p2[0]
                aa = p2[1] if len(p2) > 1 else ""
                base = dd.split("[")[0].split("/")[0]
                if dd.startswith(("@before?", "@after?")):
                    base = dd[:dd.index("?") + 1]
                if base == "@props":
                    spec.props = aa.split(); j += 1
                elif base == "@ret":
                    spec.ret = aa.strip(); j += 1
                elif base == "@rule":
                    spec.rules.append(_split_rule(aa)); j += 1
                elif base == "@prerule":
                    spec.prerules.append(_split_rule(aa)); j += 1
                elif base == "@sigfix":
                    spec.sigfix.append(_split_rule("sig " + aa)[1:]); j += 1
                elif base in ("@requires", "@ensures", "@decreases"):
                    cid, props, _ = _parse_label(dd[len(base):])
                    cl, j2 = cont_lines(j)
                    text = "\n".join([aa] + cl)
                    spec.sig.append(Clause(base[1:], cid, props, text, None))
                    j = j2
                elif base == "@loop":
                    m = re.match(r"\s*(\d+)\s+(invariant|decreases|invariant_except_break|ensures)(\[[^\]]*\])?\s?(.*)$", aa, re.S)
                    if not m:
                        raise ExtractError("%s:%d: bad @loop" % (unit_path, j + 1))
                    cid, props, _ = _parse_label(m.group(3) or "[]")
                    cl, j2 = cont_lines(j)
                    text = "\n".join([m.group(4)] + cl)
                    spec.loops.setdefault(int(m.group(1)), []).append(Clause(m.group(2), cid, props, text, None))
                    j = j2
                elif base in ("@loopend", "@loopstart", "@loopbefore"):
                    k_ = int(aa.strip())
                    cl, j2 = cont_lines(j)
                    spec.inserts.append((base[1:], k_, None, cl))
                    j = j2
                elif base in ("@tail", "@bodystart"):
                    cl, j2 = cont_lines(j)
                    spec.inserts.append((base[1:], 1, None, cl))
                    j = j2
                elif base in ("@before", "@after", "@before?", "@after?"):
                    nth = int(dd.split("/")[1].split("[")[0]) if "/" in dd else 1
                    opt_props = None
                    if base.endswith("?"):
                        mo = re.search(r"\[([^\]]*)\]", dd)
                        opt_props = [x for x in (mo.group(1) if mo else "").split(",") if x]
                        base = base[:-1]
                    m = re.match(r'\s*"((?:[^"\\]|\\.)*)"', aa)
                    if not m:
                        raise ExtractError("%s:%d: bad %s" % (unit_path, j + 1, base))
                    needle = m.group(1).replace('\\"', '"')
                    cl, j2 = cont_lines(j)
                    spec.inserts.append((base[1:], nth, needle, cl) if opt_props is None else (base[1:], nth, needle, cl, opt_props))
                    j = j2
                else:
                    break
            where_ = "%s:%d" % (os.path.basename(unit_path), i + 1)
            if d in ("@closure", "@slice", "@fn", "@macrofn"):
                # when an item's anchor is lost (code restructured beyond the rule list) only the properties its clauses serve
                # become undecided; the rest of the unit is still decided (a caller of a skipped function fails to compile,
                # which is again exit 2, never an alarm)
                mark = len(u.out)
                nclauses, nfuncs = len(u.clauses), len(u.functions)
                try:
                    _extract(u, repo, d, arg, spec, groups, where_)
                except ExtractError as e:
                    del u.out[mark:]
                    del u.clauses[nclauses:]
                    del u.functions[nfuncs:]
                    lost = set(spec.props)
                    for c in spec.sig:
                        lost |= set(c.props)
                    for cl_ in spec.loops.values():
                        for c in cl_:
                            lost |= set(c.props)
                    for ins_ in spec.inserts:
                        for l_ in ins_[3]:
                            mm_ = _MARK.search(l_)
                            if mm_ and mm_.group(2):
                                lost |= set(x for x in mm_.group(2).split(",") if x)
                    for pp in lost:
                        u.lost_hints.setdefault(pp, []).append("%s: %s" % (where_, e))
            else:
                _extract(u, repo, d, arg, spec, groups, where_)
            i = j
        else:
            raise ExtractError("%s:%d: unknown directive %s" % (unit_path, i + 1, d))
    # trusted-base scan
    for k, (l, o) in enumerate(u.out):
        if re.search(r"external_body|\baxiom fn\b|\bassume\s*\(|\badmit\s*\(|assume_specification|external_type_specification|external_fn_specification", l):
            if o[0] != "spec":
                raise ExtractError("assumption keyword outside prelude/verbatim at generated line %d" % (k + 1))
            u.trusted.append(l.strip())
    return u


def _count(u, rid, k=1):
    if k:
        u.rule_counts[rid] = u.rule_counts.get(rid, 0) + k


def _apply_rules(u, text, groups, extra, casts, pre=()):
    for rid, rx, rp in pre:
        text, k = re.subn(rx, rp, text)
        if k == 0:
            raise ExtractError("function-specific rule %s /%s/ found no anchor" % (rid, rx))
        _count(u, rid, k)
    for rid, rx, rp in RULES.expand(groups, casts):
        if callable(rx):
            text, k = rx(text)
        else:
            text, k = re.subn(rx, rp, text)
        _count(u, rid, k)
    for rid, rx, rp in extra:
        text, k = re.subn(rx, rp, text)
        if k == 0:
            raise ExtractError("function-specific rule %s /%s/ found no anchor" % (rid, rx))
        _count(u, rid, k)
    return text


def _extract(u, repo, d, arg, spec, groups, where):
    toks = _shlex(arg)
    path = os.path.join(repo, toks[0])
    if not os.path.exists(path):
        raise ExtractError("%s: source file %s missing" % (where, toks[0]))
    src = open(path).read()
    if d == "@struct":
        s, e = R.find_struct(src, toks[1])
        raw = src[s:e]
        name = toks[1]
        header_pad = ""
    elif d == "@fn":
        impl_re = None if toks[1] == "-" else toks[1]
        name = toks[2]
        s, e = R.find_fn(src, name, impl_re)
        raw = src[s:e]
    elif d == "@macrofn":
        # R12: binop_impl_all!(Op, op; self: A, rhs: B, Output = C; [ref ref] => { BODY };)
        _, _, s_in, e_in = R.find_macro(src, toks[1], toks[2])
        inner = src[s_in:e_in]
        m = re.search(r"\[ref ref\]\s*=>\s*\{", R.blank(inner))
        if not m:
            raise ExtractError("%s: [ref ref] arm not found" % where)
        o = m.end() - 1
        c = R.match_close(R.blank(inner), o)
        s = s_in + o
        e = s_in + c + 1
        # keep line structure: signature on the line of the opening brace
        raw = "fn " + toks[3] + " " + src[s:e]
        name = re.match(r"\s*(\w+)", toks[3]).group(1)
        _count(u, "R12")
    elif d == "@closure":
        # R13 (structural form): the body of the N-th closure passed to `.ADAPTER(` inside a function
        # @closure FILE IMPL_RE FN ADAPTER NTH SIG
        impl_re = None if toks[1] == "-" else toks[1]
        fs, fe = R.find_fn(src, toks[2], impl_re)
        body = src[fs:fe]
        bb = R.blank(body)
        hits = [m for m in re.finditer(r"\.\s*%s\s*\(" % re.escape(toks[3]), bb)]
        nth = int(toks[4])
        if len(hits) < nth:
            raise ExtractError("%s: %s has no %d-th .%s( call" % (where, toks[2], nth, toks[3]))
        o = hits[nth - 1].end() - 1
        c = R.match_close(bb, o)
        mcl = re.match(r"\s*(?:move\s+)?\|[^|]*\|\s*", bb[o + 1:c])
        if not mcl:
            raise ExtractError("%s: argument of .%s( is not a closure" % (where, toks[3]))
        s = fs + o + 1 + mcl.end()
        e = fs + c
        raw = "fn " + toks[5] + " {\n" + src[s:e] + "\n}"
        name = re.match(r"\s*(\w+)", toks[5]).group(1)
        _count(u, "R13")
    elif d == "@slice":
        impl_re = None if toks[1] == "-" else toks[1]
        fs, fe = R.find_fn(src, toks[2], impl_re)
        body = src[fs:fe]
        bb = R.blank(body)
        ms = re.search(toks[3], bb)
        if not ms:
            raise ExtractError("%s: slice start /%s/ not found" % (where, toks[3]))
        me = re.compile(toks[4]).search(bb, ms.start())
        if not me:
            raise ExtractError("%s: slice end /%s/ not found" % (where, toks[4]))
        s = fs + ms.start()
        e = fs + me.end()
        pro = toks[6] if len(toks) > 6 else ""
        epi = toks[7] if len(toks) > 7 else ""
        raw = "fn " + toks[5] + " { " + pro + "\n" + src[s:e] + "\n" + epi + " }"
        name = re.match(r"\s*(\w+)", toks[5]).group(1)
        _count(u, "R13")
    line0 = R.line_of(src, s)
    if d in ("@slice", "@closure"):
        line0 -= 1
    text = R.strip_comments(raw)
    text = _apply_rules(u, text, groups, spec.rules, u.casts, spec.prerules)
    if d == "@struct":
        for k, l in enumerate(text.split("\n")):
            u.out.append((l, ("src", toks[0], line0 + k, name)))
        u.functions.append(dict(kind="struct", name=name, file=toks[0], line=line0, lines=text.count("\n") + 1))
        return
    _splice(u, text, spec, toks[0], line0, name, where)


def _shlex(s):
    out = []
    for m in re.finditer(r'"((?:[^"\\]|\\.)*)"|(\S+)', s):
        out.append(m.group(1).replace('\\"', '"') if m.group(1) is not None else m.group(2))
    return out


def _splice(u, text, spec, file, line0, name, where):
    b = R.blank(text)
    body_open = R.find_body_open(b, b.index("fn") + 2)
    sig = text[:body_open].rstrip()
    for rx, rp in spec.sigfix:
        sig, k = re.subn(rx, rp, sig)
        if k == 0:
            raise ExtractError("%s: @sigfix /%s/ found no anchor" % (where, rx))
    if spec.ret:
        bs = R.blank(sig)
        # last top-level '->' of the signature
        idx = bs.rfind("->")
        if idx < 0:
            raise ExtractError("%s: @ret on a function without return type" % where)
        sig = sig[:idx] + "-> (" + spec.ret + ": " + sig[idx + 2:].strip() + ")"
    body = text[body_open:]
    bb = R.blank(body)
    # loops: textual order of `for`/`while`/`loop` keywords
    loop_pos = []
    loop_kw = []
    for m in re.finditer(r"\b(for|while|loop)\b", bb):
        if m.group(1) == "for" and not re.match(r"\s+[\w(_&]", bb[m.end():m.end() + 3]):
            continue
        o = R.find_body_open(bb, m.end())
        loop_pos.append(o)
        loop_kw.append(m.start())
    for k in spec.loops:
        if k < 1 or k > len(loop_pos):
            raise ExtractError("%s: loop %d not found in %s (has %d loops)" % (where, k, name, len(loop_pos)))
    if spec.loops and len(loop_pos) > max(spec.loops):
        # the function has more loops than the unit has invariants for (a loop was added or split): the invariants would be attached
        # to loops they were not written for, and what then fails is not a refutation — undecided, never an alarm
        raise ExtractError("%s: %s has %d loops, the unit has invariants for %d: loop structure changed" % (where, name, len(loop_pos), max(spec.loops)))
    # insertion points as (offset_in_body, payload_lines, clause-or-None)
    ins = []
    for k, cls in spec.loops.items():
        ins.append((loop_pos[k - 1], ("loop", cls)))
    body_lines_start = [0]
    for m in re.finditer(r"\n", body):
        body_lines_start.append(m.end())
    for ins_ in spec.inserts:
        (kind, nth, needle, lines) = ins_[:4]
        opt_props = ins_[4] if len(ins_) > 4 else None
        if kind == "bodystart":
            nl = body.find("\n")
            ins.append(((nl + 1) if nl >= 0 else 1, ("text", lines)))
            continue
        if kind == "tail":
            # before the line of the function's tail expression = last non-blank line before the closing brace
            c = R.match_close(bb, 0)
            j = c
            while True:
                ls = body.rfind("\n", 0, j) + 1
                if body[ls:j].strip() and body[ls:j].strip() != "}":
                    break
                j = ls - 1
                if j <= 0:
                    raise ExtractError("%s: no tail expression in %s" % (where, name))
            ins.append((ls, ("text", lines)))
            continue
        if kind == "loopbefore":
            if nth < 1 or nth > len(loop_pos):
                raise ExtractError("%s: loop %d not found in %s" % (where, nth, name))
            kw = loop_kw[nth - 1]
            ins.append((body.rfind("\n", 0, kw) + 1, ("text", lines)))
            continue
        if kind in ("loopend", "loopstart"):
            if nth < 1 or nth > len(loop_pos):
                raise ExtractError("%s: loop %d not found in %s" % (where, nth, name))
            o = loop_pos[nth - 1]
            if kind == "loopstart":
                ins.append((o + 1, ("text", lines)))
            else:
                c = R.match_close(bb, o)
                # start of the line holding the closing brace
                ins.append((body.rfind("\n", 0, c) + 1, ("text", lines)))
            continue
        def _hit(line):
            return re.search(needle[3:], line) is not None if needle.startswith("re:") else needle in line
        hits = [ls for ls in body_lines_start
                if _hit(body[ls:(body.find("\n", ls) if body.find("\n", ls) >= 0 else len(body))])]
        if len(hits) < nth:
            if opt_props is not None:
                # optional anchor: the hint is skipped and the properties it serves become undecided (never an alarm)
                for pp in opt_props:
                    u.lost_hints.setdefault(pp, []).append("%s: anchor \"%s\" in %s" % (where, needle, name))
                    u.lost_fns.add(name)
                continue
            raise ExtractError("%s: anchor \"%s\" (#%d) not found in %s" % (where, needle, nth, name))
        ls = hits[nth - 1]
        if kind == "before":
            ins.append((ls, ("text", lines)))
        else:
            le = body.find("\n", ls)
            le = len(body) if le < 0 else le + 1
            ins.append((le, ("text", lines)))
    ins.sort(key=lambda t: t[0])

    fnrec = dict(kind="fn", name=name, file=file, line=line0, lines=text.count("\n") + 1, props=spec.props,
                 clauses=0)
    u.functions.append(fnrec)

    def emit_src(chunk, off_in_text):
        # origin line: count newlines before this chunk in the rewritten text (line structure preserved)
        base = line0 + text.count("\n", 0, off_in_text)
        ls = chunk.split("\n")
        for k, l in enumerate(ls):
            u.out.append((l, ("src", file, base + k, name)))

    def emit_clause(prefix, c):
        c.fn = name
        c.unit = u.name
        if not c.props:
            c.props = list(spec.props)
        u.clauses.append(c)
        fnrec["clauses"] += 1
        ls = c.text.split("\n")
        for k, l in enumerate(ls):
            t = (prefix if k == 0 else "        ") + l.strip()
            if k == len(ls) - 1 and not t.rstrip().endswith(","):
                t = t.rstrip() + ","
            u.out.append((TAG + "    " + t, ("clause", c)))
            c.lines.append(len(u.out))

    # signature
    first_line = len(u.out)
    emit_src(sig, 0)
    last_kind = None
    sig_clauses = list(spec.sig)
    for c in sig_clauses:
        emit_clause((c.kind + " ") if c.kind != last_kind else "    ", c)
        last_kind = c.kind
    # body with insertions
    pos = 0
    for off, (kind, payload) in ins:
        chunk = body[pos:off]
        if kind == "loop":
            # header text up to '{' ; then invariants; then '{'
            emit_src(chunk.rstrip(), body_open + pos) if chunk.strip() or pos == 0 else None
            lk = None
            for c in payload:
                emit_clause((c.kind + " ") if c.kind != lk else "    ", c)
                lk = c.kind
            pos = off
        else:
            if chunk.endswith("\n"):
                chunk = chunk[:-1]
            emit_src(chunk, body_open + pos)
            _emit_insert(u, payload, name, spec, where, fnrec)
            pos = off
    emit_src(body[pos:], body_open + pos)
    if getattr(u, "canary", False) and any(c.kind == "requires" for c in spec.sig):
        # vacuity canary (DESIGN 3.10): a twin of the function, same preconditions and body, with `ensures false`,
        # which must FAIL if the precondition is satisfiable and the axioms are consistent.  Nobody calls the twin.
        twin = [l for l, _ in u.out[first_line:]]
        twin[0] = re.sub(r"\bfn\s+%s\b" % re.escape(name), "fn %s__canary" % name, twin[0], count=1)
        # drop the original's ensures clauses, keep requires; add `ensures false`
        out_lines, in_ens, done = [], False, False
        for l in twin:
            st = l[len(TAG):].strip() if l.startswith(TAG) else None
            if st is not None and not done:
                if st.startswith("ensures "):
                    in_ens = True; continue
                if in_ens and not st.startswith(("requires ", "invariant", "decreases")) and not l[len(TAG):].startswith("    {"):
                    # continuation of ensures
                    if re.match(r"(requires|invariant|decreases)\b", st):
                        in_ens = False
                    else:
                        continue
            if not done and l.strip().startswith("{") :
                out_lines.append(TAG + "    ensures false,")
                done = True
            out_lines.append(l)
        cc = Clause("ensures", "__canary__", ["__canary__"], "false", name)
        cc.unit = u.name
        for l in out_lines:
            if l == TAG + "    ensures false,":
                u.out.append((l, ("clause", cc)))
                cc.lines.append(len(u.out))
            else:
                u.out.append((l, ("canary", name)))
        u.canaries.append(name)


_MARK = re.compile(r"\s*//\[([^\]|]+)(?:\|([^\]]*))?\]\s*$")


def _emit_insert(u, lines, fn, spec, where, fnrec):
    """inserted proof text; a trailing `//[id|Cxx,..]` marker makes the assert ending on that line a
    named obligation (all lines back to the line starting with `assert`)."""
    start_idx = len(u.out)
    cur_props = []
    for l in lines:
        m = _MARK.search(l)
        if m and m.group(1) == "hint" and not l[:m.start()].strip():
            # block marker: following unlabelled proof lines serve these properties
            cur_props = [p for p in (m.group(2) or "").split(",") if p]
            continue
        if not m:
            u.out.append((TAG + l, ("ins", where, fn, list(cur_props))))
            continue
        l2 = l[:m.start()]
        c = Clause("assert", m.group(1), [p for p in (m.group(2) or "").split(",") if p], l2.strip(), fn)
        c.unit = u.name
        if not c.props:
            c.props = list(spec.props)
        u.out.append((TAG + l2, ("clause", c)))
        k = len(u.out) - 1
        c.lines.append(k + 1)
        # walk back to the line where this assert starts
        j = k
        while j > start_idx and not re.match(r"assert\b", u.out[j][0][len(TAG):].lstrip()):
            j -= 1
            u.out[j] = (u.out[j][0], ("clause", c))
            c.lines.append(j + 1)
        u.clauses.append(c)
        fnrec["clauses"] += 1


def write(u, path):
    with open(path, "w") as f:
        f.write(u.text())
    linemap = []
    for k, (l, o) in enumerate(u.out):
        if o[0] == "src":
            linemap.append([k + 1, "src", o[1], o[2], o[3]])
        elif o[0] == "clause":
            linemap.append([k + 1, "clause", o[1].fn, o[1].id or "", o[1].kind])
    with open(path + ".map.json", "w") as f:
        json.dump(linemap, f)
