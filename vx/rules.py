"""The closed list of mechanical rewrite rules (DESIGN 3.2).  Every rule keeps the number of
lines unchanged so generated lines map 1:1 to /repo source lines."""
import re
from decimal import Decimal
from . import rustsrc as R
from .rustsrc import ExtractError


def _blank_lines(s):
    return "".join(ch for ch in s if ch == "\n")


def _macro_stmt_remover(names):
    """R5a: delete `debug!(..);`-style statements (log text is dropped)."""
    def f(text):
        k = 0
        while True:
            b = R.blank(text)
            m = re.search(r"\b(%s)!\s*\(" % "|".join(names), b)
            if not m:
                return text, k
            o = m.end() - 1
            c = R.match_close(b, o)
            e = c + 1
            m2 = re.match(r"\s*;", b[e:])
            if m2:
                e += m2.end()
            text = text[:m.start()] + _blank_lines(text[m.start():e]) + text[e:]
            k += 1
    return f


def _first_arg(text, o, b):
    """text[o] == '(' ; returns (first_arg_text, close_offset)"""
    c = R.match_close(b, o)
    depth = 0
    j = o + 1
    while j < c:
        ch = b[j]
        if ch in "([{":
            j = R.match_close(b, j)
        elif ch == ",":
            return text[o + 1:j], c
        j += 1
    return text[o + 1:c], c


def _assert_rule(text):
    """R5b: assert!(cond, "msg") -> vassert(cond)   (a proof obligation: requires cond)"""
    k = 0
    while True:
        b = R.blank(text)
        m = re.search(r"\bassert!\s*\(", b)
        if not m:
            return text, k
        o = m.end() - 1
        arg, c = _first_arg(text, o, b)
        seg = text[m.start():c + 1]
        text = text[:m.start()] + "vassert(" + arg.strip() + ")" + _blank_lines(seg[len(arg):]) + text[c + 1:]
        k += 1


def _panic_rule(text):
    """R5c: panic!(..) -> vpanic()   (requires false: reachability becomes an obligation)"""
    k = 0
    while True:
        b = R.blank(text)
        m = re.search(r"\bpanic!\s*\(", b)
        if not m:
            return text, k
        c = R.match_close(b, m.end() - 1)
        text = text[:m.start()] + "vpanic()" + _blank_lines(text[m.start():c + 1]) + text[c + 1:]
        k += 1


def _bail_rule(text):
    """R5d: bail!(..) -> return Err(verr())"""
    k = 0
    while True:
        b = R.blank(text)
        m = re.search(r"\bbail!\s*\(", b)
        if not m:
            return text, k
        c = R.match_close(b, m.end() - 1)
        text = text[:m.start()] + "return Err(verr())" + _blank_lines(text[m.start():c + 1]) + text[c + 1:]
        k += 1


_FLOAT_LIT = re.compile(r"(?<![\w.])(\d+\.\d*(?:[eE][+-]?\d+)?|\d+[eE][+-]?\d+)(?:_?f64)?(?![\w.])")


def _float_lits(text):
    """R1b: float literal -> F::lit(Ghost(<decimal>real))  (rounding of the literal dropped)"""
    b = R.blank(text)
    out = []
    pos = 0
    k = 0
    for m in _FLOAT_LIT.finditer(b):
        lit = m.group(1)
        d = Decimal(lit if not lit.endswith(".") else lit + "0")
        s = format(d, "f")
        if "." not in s:
            s += ".0"
        out.append(text[pos:m.start()])
        out.append("F::lit(Ghost(%sreal))" % s)
        pos = m.end()
        k += 1
    out.append(text[pos:])
    return "".join(out), k


def _compound(text):
    """R4: `a op= e;` -> `a = a op (e);`  (Verus front end panics on float compound assignment)"""
    b = R.blank(text)
    k = 0
    out = []
    pos = 0
    for m in re.finditer(r"(?m)^([ \t]*)([A-Za-z_][\w.]*)[ \t]*([-+*/])=[ \t]*", b):
        # statement ends at the next ';' at depth 0
        j = m.end()
        while j < len(b) and b[j] != ";":
            if b[j] in "([{":
                j = R.match_close(b, j)
            j += 1
        if j >= len(b):
            continue
        out.append(text[pos:m.start()])
        out.append("%s%s = %s %s (%s);" % (m.group(1), m.group(2), m.group(2), m.group(3), text[m.end():j]))
        pos = j + 1
        k += 1
    out.append(text[pos:])
    return "".join(out), k


def _casts(table):
    def f(text):
        k = 0
        for expr, conv in table.items():
            rx = r"(?<![\w.])" + re.escape(expr) + r"\s+as\s+f64\b"
            text, kk = re.subn(rx, "F::%s(%s)" % (conv, expr), text)
            k += kk
        if re.search(r"\bas\s+f64\b", R.blank(text)):
            m = re.search(r"[^\n]*\bas\s+f64\b", text)
            raise ExtractError("R2: no @cast entry for: " + m.group(0).strip())
        return text, k
    return f


def _vec_macro(text):
    """R19: `vec![e1, .., en]` -> `vvecN(e1, .., en)` (macro arguments are opaque to the verus! syntax pass;
    vvecN is a shim whose result is the sequence [e1..en]); `vec![]` -> Vec::new()"""
    k = 0
    while True:
        b = R.blank(text)
        m = re.search(r"\bvec!\s*\[", b)
        if not m:
            return text, k
        o = m.end() - 1
        c = R.match_close(b, o)
        inner = b[o + 1:c]
        # count top-level commas
        n, depth, j, last_nonspace = 0, 0, 0, ""
        parts = 1 if inner.strip() else 0
        while j < len(inner):
            ch = inner[j]
            if ch in "([{":
                j = R.match_close(inner, j)
            elif ch == "," :
                if inner[j + 1:].strip():
                    parts += 1
            elif ch == ";":
                raise ExtractError("R19: vec![x; n] form is outside the rule list")
            j += 1
        if parts == 0:
            text = text[:m.start()] + "Vec::new()" + _blank_lines(text[m.start():c + 1]) + text[c + 1:]
        else:
            text = text[:m.start()] + "vvec%d(" % parts + text[o + 1:c] + ")" + text[c + 1:]
        k += 1


_ATTR = re.compile(r"(?m)^([ \t]*)#\[(?:inline|allow|derive|structopt|serde|cfg_attr\(kani)[^\n]*\]\s*?$")


def _attrs(text):
    """R10: attributes dropped (kept as blank lines); of a derive list only Clone/Copy/PartialEq survive
    (structural, no user code: Verus provides them)"""
    k = 0
    def rep(m):
        nonlocal k
        k += 1
        line = m.group(0)
        md = re.search(r"#\[derive\(([^)]*)\)\]", line)
        if md:
            names = [x.strip() for x in md.group(1).split(",")]
            keep = [x for x in names if x in ("Clone", "Copy")]
            if "Copy" in keep:
                return m.group(1) + "#[derive(%s)]" % ", ".join(keep)
        return ""
    return _ATTR.sub(rep, text), k


def _multiline_attrs(text):
    # #[cfg_attr(kani, ...)] spanning several lines
    k = 0
    while True:
        b = R.blank(text)
        m = re.search(r"#\[\s*cfg_attr\s*\(\s*kani\b", b)
        if not m:
            return text, k
        c = R.match_close(b, b.index("[", m.start()))
        text = text[:m.start()] + _blank_lines(text[m.start():c + 1]) + text[c + 1:]
        k += 1


def _alias_set(text):
    """R8: `self.value.set_value(E)` -> `self.cur = (E)` (any argument expression)"""
    k = 0
    while True:
        b = R.blank(text)
        m = re.search(r"\bself\s*\.\s*value\s*\.\s*set_value\s*\(", b)
        if not m:
            return text, k
        o = m.end() - 1
        c = R.match_close(b, o)
        text = text[:m.start()] + "self.cur = (" + text[o + 1:c] + ")" + text[c + 1:]
        k += 1


# ---------------------------------------------------------------------------------------------
# R16: iterator-idiom desugaring of `for PAT in SOURCE(.adapter)* {` loops (closed catalogue)
ITER_SOURCES = ("cartesian_positions", "relative_positions", "periodic_images", "positions", "symmetries")


def _split_chain(expr_b, expr):
    """split `a.b(x).c(y)` at top-level dots into [(name, args_text_or_None, full_segment)]"""
    segs = []
    i, n, start = 0, len(expr_b), 0
    while i < n:
        ch = expr_b[i]
        if ch in "([{":
            i = R.match_close(expr_b, i)
        elif ch == "." and i > 0 and not (expr_b[i - 1].isdigit() and i + 1 < n and expr_b[i + 1].isdigit()):
            segs.append(expr[start:i])
            start = i + 1
        i += 1
    segs.append(expr[start:])
    return [x.strip() for x in segs]


def _for_chain(text):
    """R16: `for PAT in PREFIX.SOURCE(args)[.map(|q| e)][.enumerate()][.skip(e)] {`  ->
           `let it_K = PREFIX.SOURCE_v(args); for ix_K in START..it_K.len() { let PAT = ELEM;`
    (eager Vec instead of a lazy iterator: same elements, same order — assumed adapter semantics)."""
    k = 0
    pos = 0
    while True:
        b = R.blank(text)
        m = re.compile(r"\bfor\s+").search(b, pos)
        if not m:
            return text, k
        # pattern up to ` in `
        j = m.end()
        depth_ok = None
        mi = re.compile(r"\s+in\s+").search(b, j)
        if not mi:
            pos = m.end(); continue
        pat = text[j:mi.start()]
        if "\n" in pat or "{" in pat:
            pos = m.end(); continue
        try:
            o = R.find_body_open(b, mi.end())
        except ExtractError:
            pos = m.end(); continue
        expr = text[mi.end():o]
        expr_b = b[mi.end():o]
        segs = _split_chain(expr_b, expr)
        src_idx = None
        vec_src = False
        for idx, sg in enumerate(segs):
            mm = re.match(r"(\w+)\s*\(", sg)
            if mm and mm.group(1) in ITER_SOURCES:
                src_idx = idx
        if src_idx is None:
            # `V.iter()` followed by at least one adapter of the catalogue (a plain `for x in v.iter()` is left alone)
            for idx, sg in enumerate(segs):
                if re.match(r"iter\s*\(\s*\)$", " ".join(sg.split())) and idx + 1 < len(segs) and re.match(r"(zip|enumerate|map|skip)\b", segs[idx + 1]):
                    src_idx, vec_src = idx, True
                    break
        if src_idx is None:
            pos = o; continue
        k += 1
        it, ix = "it_%d" % k, "ix_%d" % k
        if vec_src:
            src_call = "&" + " ".join(".".join(segs[:src_idx]).split())
            elem = "&%s[%s]" % (it, ix)
        else:
            name = re.match(r"(\w+)", segs[src_idx]).group(1)
            src_call = ".".join(segs[:src_idx] + [segs[src_idx].replace(name, name + "_v", 1)])
            src_call = " ".join(src_call.split())
            elem = "%s[%s]" % (it, ix)
        start = "0"
        for sg in segs[src_idx + 1:]:
            sg1 = " ".join(sg.split())
            mm = re.match(r"zip\s*\(\s*([\w.]+)\s*\.\s*iter\s*\(\s*\)\s*\.\s*cycle\s*\(\s*\)\s*\.\s*skip\s*\(\s*(\w+)\s*\)\s*\)$", sg1)
            if mm:
                # pair each element with the one K places further on, cyclically
                elem = "(%s, &%s[(%s + %s) %% %s.len()])" % (elem, mm.group(1), ix, mm.group(2), mm.group(1))
                continue
            mm = re.match(r"map\s*\(\s*(?:move\s+)?\|\s*([^|]*?)\s*\|\s*(.*)\)$", sg1)
            if mm:
                elem = "{ let %s = %s; %s }" % (mm.group(1), elem, mm.group(2))
                continue
            if re.match(r"enumerate\s*\(\s*\)$", sg1):
                elem = "(%s, %s)" % (ix if start == "0" else "%s - (%s)" % (ix, start), elem)
                continue
            mm = re.match(r"skip\s*\((.*)\)$", sg1)
            if mm:
                start = mm.group(1) if start == "0" else "%s + (%s)" % (start, mm.group(1))
                continue
            raise ExtractError("R16: adapter outside the catalogue: ." + sg1[:60])
        new = "let %s = %s; for %s in %s..%s.len() { let %s = %s;" % (it, src_call, ix, start, it, pat.strip(), elem)
        old = text[m.start():o + 1]
        text = text[:m.start()] + new + _blank_lines(old) + text[o + 1:]
        pos = m.start() + len(new)


_ADAPTERS = ("map", "filter", "flat_map", "tuple_combinations")
_CONSUMERS = ("any", "all", "sum", "fold", "collect", "max", "min")


def _recv_start(b, dot):
    """start offset of the receiver path that ends right before offset `dot` (identifiers, `.`, `::`, balanced () [])"""
    i = dot
    while i > 0:
        ch = b[i - 1]
        if ch.isalnum() or ch in "_.:":
            i -= 1
        elif ch.isspace() and b[i:dot + 1].lstrip().startswith("."):
            # rustfmt breaks long method chains before the dot
            j = i - 1
            while j > 0 and b[j - 1].isspace():
                j -= 1
            if j > 0 and (b[j - 1].isalnum() or b[j - 1] in "_)]"):
                i = j
            else:
                break
        elif ch in ")]":
            # balanced group backwards
            depth, j = 0, i - 1
            while j >= 0:
                if b[j] in ")]":
                    depth += 1
                elif b[j] in "([":
                    depth -= 1
                    if depth == 0:
                        break
                j -= 1
            i = j
        else:
            break
    return i


def _closure(arg):
    m = re.match(r"\s*(?:move\s+)?\|\s*(.*?)\s*\|\s*(.*)$", arg, re.S)
    return (m.group(1), " ".join(m.group(2).split())) if m else None


def _expr_chain(text):
    """R16 (expressions): SOURCE(.adapter)*(.consumer)? -> a block with explicit loops.
    SOURCE: `V.iter()` | `iproduct!(A.iter(), B.iter())` | `iproduct!(r1, r2)` | call of a chain-returning fn (-> its _v twin)
    adapters: map(|p| e), filter(|p| e), flat_map(Type::f), tuple_combinations();  consumers: any(|p| e), sum(), fold(i, f), collect()/none.
    Eager loops instead of lazy iterators: same elements, same order (assumed adapter semantics)."""
    k = 0
    pos = 0
    while True:
        b = R.blank(text)
        m = re.compile(r"(\biproduct!\s*\()|(\.\s*(?:into_)?iter\s*\(\s*\))|(\b(%s)\s*\()|(\(\s*[\w.]+\s*\.\.\s*[\w.]+\s*\)\s*\.\s*into_par_iter\s*\(\s*\))" % "|".join(ITER_SOURCES)).search(b, pos)
        if not m:
            return text, k
        if m.group(5):
            # rayon range: `(a..b).into_par_iter()` — element-wise adapters and an order-insensitive consumer: read sequentially
            start = m.start()
            src_end = m.end()
            kind = "par_range"
        elif m.group(1):
            start = m.start()
            src_end = R.match_close(b, m.end() - 1) + 1
            kind = "iproduct"
        elif m.group(2):
            start = _recv_start(b, m.start())
            src_end = m.end()
            kind = "iter"
        else:
            # chain-returning fn: must be a method call `recv.name(`
            if m.start() == 0 or b[m.start() - 1] != ".":
                pos = m.end(); continue
            start = _recv_start(b, m.start() - 1)
            src_end = R.match_close(b, m.end() - 1) + 1
            kind = "fn"
        # not inside a `for .. in` header (handled by _for_chain) and not a definition `fn name(`
        line_start = b.rfind("\n", 0, start) + 1
        if re.match(r"\s*(pub\s+)?fn\b", b[line_start:start + 1]) or re.search(r"\bfor\b[^\n{]*\bin\s*$", b[line_start:start]):
            pos = src_end; continue
        # the rest of the chain
        j = src_end
        segs = []
        while True:
            mm = re.compile(r"\s*\.\s*(\w+)\s*(::\s*<[^()]*>)?\s*\(").match(b, j)
            if not mm or mm.group(1) not in _ADAPTERS + _CONSUMERS:
                break
            c = R.match_close(b, mm.end() - 1)
            if mm.group(2):
                # the only turbofish in the catalogue: `collect::<Result<Vec<_>, _>>()` (the first `Err` wins, else all the `Ok` values)
                if mm.group(1) != "collect" or "".join(mm.group(2).split()) != "::<Result<Vec<_>,_>>":
                    raise ExtractError("R16: turbofish `%s%s` outside the catalogue" % (mm.group(1), mm.group(2)))
                segs.append(("collect", "Result"))
                j = c + 1
                break
            segs.append((mm.group(1), text[mm.end():c]))
            j = c + 1
            if mm.group(1) in _CONSUMERS:
                break
        if not segs:
            pos = src_end; continue
        k += 1
        end = j
        src = " ".join(text[start:src_end].split())
        head, opens = [], 0
        stage = [0]

        def cur():
            return "e%d_%d_" % (k, stage[0])

        def nxt():
            stage[0] += 1
            return "e%d_%d_" % (k, stage[0])
        e = cur()
        if kind == "iter":
            recv = " ".join(text[start:m.start()].split())
            if segs and segs[0][0] == "tuple_combinations":
                segs = segs[1:]
                head.append("let s%d_ = &%s; for i%d_ in 0..s%d_.len() { for j%d_ in (i%d_ + 1)..s%d_.len() { let %s = (&s%d_[i%d_], &s%d_[j%d_]);" % (k, recv, k, k, k, k, k, e, k, k, k, k))
                opens = 2
            elif "into_iter" in b[m.start():m.end()]:
                # by value (elements are Copy in the anchored code)
                head.append("let s%d_ = %s; for i%d_ in 0..s%d_.len() { let %s = s%d_[i%d_];" % (k, recv, k, k, e, k, k))
                opens = 1
            else:
                head.append("let s%d_ = &%s; for i%d_ in 0..s%d_.len() { let %s = &s%d_[i%d_];" % (k, recv, k, k, e, k, k))
                opens = 1
        elif kind == "par_range":
            rng_ = re.match(r"\(\s*(.*?)\s*\)\s*\.", " ".join(text[start:src_end].split())).group(1)
            head.append("for i%d_ in %s { let %s = i%d_;" % (k, rng_, e, k))
            opens = 1
        elif kind == "iproduct":
            args = text[m.end():src_end - 1]
            ab = R.blank(args)
            depth, cut = 0, None
            for ii, ch in enumerate(ab):
                if ch in "([{":
                    depth += 1
                elif ch in ")]}":
                    depth -= 1
                elif ch == "," and depth == 0:
                    cut = ii; break
            if cut is None:
                raise ExtractError("R16: iproduct! with other than two arguments")
            a1, a2 = " ".join(args[:cut].split()), " ".join(args[cut + 1:].split())
            if a1.endswith(".iter()") and a2.endswith(".iter()"):
                r1, r2 = a1[:-7], a2[:-7]
                head.append("let s%da_ = &%s; let s%db_ = &%s; for i%d_ in 0..s%da_.len() { for j%d_ in 0..s%db_.len() { let %s = (&s%da_[i%d_], &s%db_[j%d_]);" % (k, r1, k, r2, k, k, k, k, e, k, k, k, k))
            else:
                head.append("for x%d_ in %s { for y%d_ in %s { let %s = (x%d_, y%d_);" % (k, a1, k, a2, e, k, k))
            opens = 2
        else:
            name = m.group(4)
            call = " ".join(text[start:src_end].split())
            call = re.sub(r"\b%s\s*\(" % name, name + "_v(", call, count=1)
            head.append("let s%d_ = %s; for i%d_ in 0..s%d_.len() { let %s = s%d_[i%d_];" % (k, call, k, k, e, k, k))
            opens = 1
        body = []
        cons = None
        for name, arg in segs:
            if name == "map":
                cl = _closure(arg)
                prev, e = e, nxt()
                if cl and re.match(r"&\s*\w+$", cl[0]):
                    # `|&a| ..` on an iterator of references: a = the element itself (Copy)
                    body.append("let %s = { let %s = *%s; %s };" % (e, cl[0][1:].strip(), prev, cl[1]))
                elif cl:
                    body.append("let %s = { let %s = %s; %s };" % (e, cl[0], prev, cl[1]))
                else:
                    body.append("let %s = %s(%s);" % (e, " ".join(arg.split()), prev))
            elif name == "filter":
                cl = _closure(arg)
                if not cl:
                    raise ExtractError("R16: filter without closure")
                if cl[0].startswith("&"):
                    body.append("if { let %s = %s; %s } {" % (cl[0][1:].strip(), e, cl[1]))
                else:
                    body.append("if { let %s = &%s; %s } {" % (cl[0], e, cl[1]))
                opens += 1
            elif name == "flat_map":
                path = " ".join(arg.split())
                prev, e = e, nxt()
                cl = _closure(arg)
                mcl = re.match(r"^(\w+)\s*\.\s*(\w+)\s*\(\s*\)$", cl[1]) if cl else None
                if mcl and mcl.group(1) == cl[0].strip():
                    # `flat_map(|x| x.f())`: the same call as `flat_map(T::f)`, written as a closure
                    body.append("let t%d_ = %s.%s_v(); for u%d_ in 0..t%d_.len() { let %s = t%d_[u%d_];" % (k, prev, mcl.group(2), k, k, e, k, k))
                elif cl:
                    raise ExtractError("R16: flat_map with a closure other than |x| x.f()")
                else:
                    body.append("let t%d_ = %s_v(%s); for u%d_ in 0..t%d_.len() { let %s = t%d_[u%d_];" % (k, path, prev, k, k, e, k, k))
                opens += 1
            elif name in _CONSUMERS:
                cons = (name, arg)
        acc = "acc%d_" % k
        tail = acc
        if cons is not None and cons[0] == "collect" and cons[1] == "Result":
            # Result-collect: std stops at the first Err and returns it; read eagerly (the mapped function is evaluated on the later
            # elements too, its results are dropped) - same value whenever the mapped function returns normally
            err = "err%d_" % k
            init = "let mut %s = Vec::new(); let mut %s = None;" % (acc, err)
            upd = "if %s.is_none() { match %s { Ok(v%d_) => { %s.push(v%d_); } Err(x%d_) => { %s = Some(x%d_); } } }" % (err, e, k, acc, k, k, err, k)
            tail = "match %s { None => Ok(%s), Some(x%d_) => Err(x%d_) }" % (err, acc, k, k)
        elif cons is None or cons[0] == "collect":
            init, upd = "let mut %s = Vec::new();" % acc, "%s.push(%s);" % (acc, e)
        elif cons[0] == "any":
            cl = _closure(cons[1])
            init, upd = "let mut %s = false;" % acc, "if { let %s = %s; %s } { %s = true; }" % (cl[0], e, cl[1], acc)
        elif cons[0] == "all":
            cl = _closure(cons[1])
            init, upd = "let mut %s = true;" % acc, "if !({ let %s = %s; %s }) { %s = false; }" % (cl[0], e, cl[1], acc)
        elif cons[0] == "sum":
            init, upd = "let mut %s: f64 = 0.;" % acc, "%s = %s + %s;" % (acc, acc, e)
        elif cons[0] == "min":
            init = "let mut %s = None;" % acc
            upd = "%s = match %s { None => Some(%s), Some(b%d_) => match %s.cmp(&b%d_) { Ordering::Less => Some(%s), _ => Some(b%d_) } };" % (acc, acc, e, k, e, k, e, k)
        elif cons[0] == "max":
            # Iterator::max / ParallelIterator::max: a greatest element by Ord::cmp (std returns the last of several equal ones)
            init = "let mut %s = None;" % acc
            upd = "%s = match %s { None => Some(%s), Some(b%d_) => match %s.cmp(&b%d_) { Ordering::Less => Some(b%d_), _ => Some(%s) } };" % (acc, acc, e, k, e, k, k, e)
        elif cons[0] == "fold":
            ab = R.blank(cons[1])
            depth, cut = 0, None
            for ii, ch in enumerate(ab):
                if ch in "([{":
                    depth += 1
                elif ch in ")]}":
                    depth -= 1
                elif ch == "," and depth == 0:
                    cut = ii; break
            ini, fn = " ".join(cons[1][:cut].split()), cons[1][cut + 1:]
            cl = _closure(fn)
            init = "let mut %s = %s;" % (acc, ini)
            if cl:
                params = [x.strip() for x in cl[0].split(",")]
                upd = "%s = { let %s = %s; let %s = %s; %s };" % (acc, params[0], acc, params[1], e, cl[1])
            else:
                upd = "%s = %s(%s, %s);" % (acc, " ".join(fn.split()), acc, e)
        old = text[start:end]
        nl = old.count("\n")
        if nl >= 2:
            # enough source lines: put the accumulator update on a line of its own so that proof hints can be anchored around it
            new = "{ " + init + " " + " ".join(head) + " " + " ".join(body) + "\n" + upd + "\n" + "}" * opens + " " + tail + " }" + "\n" * (nl - 2)
            text = text[:start] + new + text[end:]
        else:
            new = "{ " + init + " " + " ".join(head) + " " + " ".join(body) + " " + upd + " " + "}" * opens + " " + tail + " }"
            text = text[:start] + new + _blank_lines(old) + text[end:]
        pos = start + len(new)


GROUPS = {
    "iter": [
        ("R16", _for_chain, None),
        ("R16", _expr_chain, None),
    ],
    "alias": [
        ("R8", _alias_set, None),
        ("R8", r"\bself\s*\.\s*value\s*\.\s*get_value\s*\(\s*\)", "self.cur"),
    ],
    "base": [
        ("R10", _multiline_attrs, None),
        ("R10", _attrs, None),
        ("R5", _macro_stmt_remover(["debug", "info", "trace", "warn", "dbg", "println"]), None),
        ("R5", _assert_rule, None),
        ("R5", _panic_rule, None),
        ("R5", _bail_rule, None),
        ("R19", _vec_macro, None),
    ],
    "float": [
        ("R4", _compound, None),
        ("R3", r"\b(?:std::)?f64::consts::PI\b", "F::pi()"),
        ("R3", r"\b(?:std::)?f64::MIN\b(?!_)", "F::min_value()"),
        ("R3", r"\b(?:std::)?f64::EPSILON\b", "F::epsilon()"),
        ("R3", r"\bf64::from\(\s*(?:std::)?f32::EPSILON\s*\)", "F::epsilon32()"),
        ("R3", r"\bf64::(\w+)\s*\(", r"F::\1("),
        ("R1", r"\bPI\b", "F::pi()"),
        ("R2", r"\(([^()]*(?:\([^()]*\)[^()]*)*)\)\.(ceil|floor)\(\)\s+as\s+i64", r"F::\2_i64(\1)"),
        ("R1", _float_lits, None),
        # casts are inserted here by expand()
        ("R1", r"\bf64\b", "F"),
    ],
    "rand": [
        ("R7", r"<\s*R\s*:\s*Rng\s*\+\s*\?Sized\s*>", ""),
        ("R7", r"&mut\s+R\b", "&mut Pcg64Mcg"),
    ],
    "nalgebra": [
        # m[(r, c)] = e;   ->  m.set_at(r, c, e);
        ("R11", r"(\b[\w.]+)\s*\[\(\s*([^,()\]]+),\s*([^,()\]]+)\)\]\s*=\s*([^;=][^;]*);", r"\1.set_at(\2, \3, \4);"),
        ("R11", r"(\b[\w.]+(?:\(\))?)\s*\[\(\s*([^,()\]]+),\s*([^,()\]]+)\)\]", r"\1.at(\2, \3)"),
        # point - point (nalgebra gives a vector)
        ("R11", r"\(\s*([\w.]+(?:\(\))?)\s*-\s*([\w.:]+(?:\(\))?)\s*\)\s*\.\s*norm_squared\(\)", r"\1.sub_p(&\2).norm_squared()"),
        ("R11", r"\(\s*([\w.]+(?:\(\))?)\s*-\s*([\w.:]+(?:\(\))?)\s*\)\s*\.\s*norm\(\)", r"\1.sub_p(&\2).norm()"),
        ("R11", r"\bPoint2<F>", "Point2"),
        ("R11", r"\bPoint2<f64>", "Point2"),
        ("R11", r"\bTranslation2<f64>", "Translation2"),
        ("R11", r"\bMatrix3<f64>", "Matrix3"),
        ("R11", r"\bnalgebra::", ""),
    ],
}


def expand(groups, casts):
    out = []
    for g in groups:
        if g not in GROUPS:
            raise ExtractError("unknown rule group " + g)
        for r in GROUPS[g]:
            if g == "float" and r[1] == r"\bf64\b":
                out.append(("R2", _casts(casts), None))
            out.append(r)
    return out
