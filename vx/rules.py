"""The closed list of mechanical rewrite rules (DESIGN 3.2).  Every rule keeps the number of
lines unchanged so generated lines map 1:1 to /repo source lines."""
import re
from decimal import Decimal
from . import rustsrc as R
from .rustsrc import ExtractError


def _blank_lines(s):
    return "".join(ch for ch in s if ch == "\n")


def _macro_stmt_remover(names):
    """R5a: delete `debug!(..);`-style statements (log text is dropped)."""
    def f(text):
        k = 0
        while True:
            b = R.blank(text)
            m = re.search(r"\b(%s)!\s*\(" % "|".join(names), b)
            if not m:
                return text, k
            o = m.end() - 1
            c = R.match_close(b, o)
            e = c + 1
            m2 = re.match(r"\s*;", b[e:])
            if m2:
                e += m2.end()
            text = text[:m.start()] + _blank_lines(text[m.start():e]) + text[e:]
            k += 1
    return f


def _first_arg(text, o, b):
    """text[o] == '(' ; returns (first_arg_text, close_offset)"""
    c = R.match_close(b, o)
    depth = 0
    j = o + 1
    while j < c:
        ch = b[j]
        if ch in "([{":
            j = R.match_close(b, j)
        elif ch == ",":
            return text[o + 1:j], c
        j += 1
    return text[o + 1:c], c


def _assert_rule(text):
    """R5b: assert!(cond, "msg") -> vassert(cond)   (a proof obligation: requires cond)"""
    k = 0
    while True:
        b = R.blank(text)
        m = re.search(r"\bassert!\s*\(", b)
        if not m:
            return text, k
        o = m.end() - 1
        arg, c = _first_arg(text, o, b)
        seg = text[m.start():c + 1]
        text = text[:m.start()] + "vassert(" + arg.strip() + ")" + _blank_lines(seg[len(arg):]) + text[c + 1:]
        k += 1


def _panic_rule(text):
    """R5c: panic!(..) -> vpanic()   (requires false: reachability becomes an obligation)"""
    k = 0
    while True:
        b = R.blank(text)
        m = re.search(r"\bpanic!\s*\(", b)
        if not m:
            return text, k
        c = R.match_close(b, m.end() - 1)
        text = text[:m.start()] + "vpanic()" + _blank_lines(text[m.start():c + 1]) + text[c + 1:]
        k += 1


def _bail_rule(text):
    """R5d: bail!(..) -> return Err(verr())"""
    k = 0
    while True:
        b = R.blank(text)
        m = re.search(r"\bbail!\s*\(", b)
        if not m:
            return text, k
        c = R.match_close(b, m.end() - 1)
        text = text[:m.start()] + "return Err(verr())" + _blank_lines(text[m.start():c + 1]) + text[c + 1:]
        k += 1


_FLOAT_LIT = re.compile(r"(?<![\w.])(\d+\.\d*(?:[eE][+-]?\d+)?|\d+[eE][+-]?\d+)(?:_?f64)?(?![\w.])")


def _float_lits(text):
    """R1b: float literal -> F::lit(Ghost(<decimal>real))  (rounding of the literal dropped)"""
    b = R.blank(text)
    out = []
    pos = 0
    k = 0
    for m in _FLOAT_LIT.finditer(b):
        lit = m.group(1)
        d = Decimal(lit if not lit.endswith(".") else lit + "0")
        s = format(d, "f")
        if "." not in s:
            s += ".0"
        out.append(text[pos:m.start()])
        out.append("F::lit(Ghost(%sreal))" % s)
        pos = m.end()
        k += 1
    out.append(text[pos:])
    return "".join(out), k


def _compound(text):
    """R4: `a op= e;` -> `a = a op (e);`  (Verus front end panics on float compound assignment)"""
    b = R.blank(text)
    k = 0
    out = []
    pos = 0
    for m in re.finditer(r"(?m)^([ \t]*)([A-Za-z_][\w.]*)[ \t]*([-+*/])=[ \t]*", b):
        # statement ends at the next ';' at depth 0
        j = m.end()
        while j < len(b) and b[j] != ";":
            if b[j] in "([{":
                j = R.match_close(b, j)
            j += 1
        if j >= len(b):
            continue
        out.append(text[pos:m.start()])
        out.append("%s%s = %s %s (%s);" % (m.group(1), m.group(2), m.group(2), m.group(3), text[m.end():j]))
        pos = j + 1
        k += 1
    out.append(text[pos:])
    return "".join(out), k


def _casts(table):
    def f(text):
        k = 0
        for expr, conv in table.items():
            rx = re.escape(expr) + r"\s+as\s+f64\b"
            text, kk = re.subn(rx, "F::%s(%s)" % (conv, expr), text)
            k += kk
        if re.search(r"\bas\s+f64\b", R.blank(text)):
            m = re.search(r"[^\n]*\bas\s+f64\b", text)
            raise ExtractError("R2: no @cast entry for: " + m.group(0).strip())
        return text, k
    return f


def _vec_macro(text):
    """R19: `vec![e1, .., en]` -> `vvecN(e1, .., en)` (macro arguments are opaque to the verus! syntax pass;
    vvecN is a shim whose result is the sequence [e1..en]); `vec![]` -> Vec::new()"""
    k = 0
    while True:
        b = R.blank(text)
        m = re.search(r"\bvec!\s*\[", b)
        if not m:
            return text, k
        o = m.end() - 1
        c = R.match_close(b, o)
        inner = b[o + 1:c]
        # count top-level commas
        n, depth, j, last_nonspace = 0, 0, 0, ""
        parts = 1 if inner.strip() else 0
        while j < len(inner):
            ch = inner[j]
            if ch in "([{":
                j = R.match_close(inner, j)
            elif ch == "," :
                if inner[j + 1:].strip():
                    parts += 1
            elif ch == ";":
                raise ExtractError("R19: vec![x; n] form is outside the rule list")
            j += 1
        if parts == 0:
            text = text[:m.start()] + "Vec::new()" + _blank_lines(text[m.start():c + 1]) + text[c + 1:]
        else:
            text = text[:m.start()] + "vvec%d(" % parts + text[o + 1:c] + ")" + text[c + 1:]
        k += 1


_ATTR = re.compile(r"(?m)^([ \t]*)#\[(?:inline|allow|derive|structopt|serde|cfg_attr\(kani)[^\n]*\]\s*?$")


def _attrs(text):
    """R10: attributes dropped (kept as blank lines); of a derive list only Clone/Copy/PartialEq survive
    (structural, no user code: Verus provides them)"""
    k = 0
    def rep(m):
        nonlocal k
        k += 1
        line = m.group(0)
        md = re.search(r"#\[derive\(([^)]*)\)\]", line)
        if md:
            names = [x.strip() for x in md.group(1).split(",")]
            keep = [x for x in names if x in ("Clone", "Copy")]
            if "Copy" in keep:
                return m.group(1) + "#[derive(%s)]" % ", ".join(keep)
        return ""
    return _ATTR.sub(rep, text), k


def _multiline_attrs(text):
    # #[cfg_attr(kani, ...)] spanning several lines
    k = 0
    while True:
        b = R.blank(text)
        m = re.search(r"#\[\s*cfg_attr\s*\(\s*kani\b", b)
        if not m:
            return text, k
        c = R.match_close(b, b.index("[", m.start()))
        text = text[:m.start()] + _blank_lines(text[m.start():c + 1]) + text[c + 1:]
        k += 1


def _alias_set(text):
    """R8: `self.value.set_value(E)` -> `self.cur = (E)` (any argument expression)"""
    k = 0
    while True:
        b = R.blank(text)
        m = re.search(r"\bself\s*\.\s*value\s*\.\s*set_value\s*\(", b)
        if not m:
            return text, k
        o = m.end() - 1
        c = R.match_close(b, o)
        text = text[:m.start()] + "self.cur = (" + text[o + 1:c] + ")" + text[c + 1:]
        k += 1


# ---------------------------------------------------------------------------------------------
# R16: iterator-idiom desugaring of `for PAT in SOURCE(.adapter)* {` loops (closed catalogue)
ITER_SOURCES = ("cartesian_positions", "relative_positions", "periodic_images", "positions", "symmetries")


def _split_chain(expr_b, expr):
    """split `a.b(x).c(y)` at top-level dots into [(name, args_text_or_None, full_segment)]"""
    segs = []
    i, n, start = 0, len(expr_b), 0
    while i < n:
        ch = expr_b[i]
        if ch in "([{":
            i = R.match_close(expr_b, i)
        elif ch == "." and i > 0 and not (expr_b[i - 1].isdigit() and i + 1 < n and expr_b[i + 1].isdigit()):
            segs.append(expr[start:i])
            start = i + 1
        i += 1
    segs.append(expr[start:])
    return [x.strip() for x in segs]


def _for_chain(text):
    """R16: `for PAT in PREFIX.SOURCE(args)[.map(|q| e)][.enumerate()][.skip(e)] {`  ->
           `let it_K = PREFIX.SOURCE_v(args); for ix_K in START..it_K.len() { let PAT = ELEM;`
    (eager Vec instead of a lazy iterator: same elements, same order — assumed adapter semantics)."""
    k = 0
    pos = 0
    while True:
        b = R.blank(text)
        m = re.compile(r"\bfor\s+").search(b, pos)
        if not m:
            return text, k
        # pattern up to ` in `
        j = m.end()
        depth_ok = None
        mi = re.compile(r"\s+in\s+").search(b, j)
        if not mi:
            pos = m.end(); continue
        pat = text[j:mi.start()]
        if "\n" in pat or "{" in pat:
            pos = m.end(); continue
        try:
            o = R.find_body_open(b, mi.end())
        except ExtractError:
            pos = m.end(); continue
        expr = text[mi.end():o]
        expr_b = b[mi.end():o]
        segs = _split_chain(expr_b, expr)
        src_idx = None
        for idx, sg in enumerate(segs):
            mm = re.match(r"(\w+)\s*\(", sg)
            if mm and mm.group(1) in ITER_SOURCES:
                src_idx = idx
        if src_idx is None:
            pos = o; continue
        k += 1
        name = re.match(r"(\w+)", segs[src_idx]).group(1)
        src_call = ".".join(segs[:src_idx] + [segs[src_idx].replace(name, name + "_v", 1)])
        src_call = " ".join(src_call.split())
        it, ix = "it_%d" % k, "ix_%d" % k
        elem = "%s[%s]" % (it, ix)
        start = "0"
        for sg in segs[src_idx + 1:]:
            sg1 = " ".join(sg.split())
            mm = re.match(r"map\s*\(\s*(?:move\s+)?\|\s*([^|]*?)\s*\|\s*(.*)\)$", sg1)
            if mm:
                elem = "{ let %s = %s; %s }" % (mm.group(1), elem, mm.group(2))
                continue
            if re.match(r"enumerate\s*\(\s*\)$", sg1):
                elem = "(%s, %s)" % (ix if start == "0" else "%s - (%s)" % (ix, start), elem)
                continue
            mm = re.match(r"skip\s*\((.*)\)$", sg1)
            if mm:
                start = mm.group(1) if start == "0" else "%s + (%s)" % (start, mm.group(1))
                continue
            raise ExtractError("R16: adapter outside the catalogue: ." + sg1[:60])
        new = "let %s = %s; for %s in %s..%s.len() { let %s = %s;" % (it, src_call, ix, start, it, pat.strip(), elem)
        old = text[m.start():o + 1]
        text = text[:m.start()] + new + _blank_lines(old) + text[o + 1:]
        pos = m.start() + len(new)


GROUPS = {
    "iter": [
        ("R16", _for_chain, None),
    ],
    "alias": [
        ("R8", _alias_set, None),
        ("R8", r"\bself\s*\.\s*value\s*\.\s*get_value\s*\(\s*\)", "self.cur"),
    ],
    "base": [
        ("R10", _multiline_attrs, None),
        ("R10", _attrs, None),
        ("R5", _macro_stmt_remover(["debug", "info", "trace", "warn", "dbg", "println"]), None),
        ("R5", _assert_rule, None),
        ("R5", _panic_rule, None),
        ("R5", _bail_rule, None),
        ("R19", _vec_macro, None),
    ],
    "float": [
        ("R4", _compound, None),
        ("R3", r"\b(?:std::)?f64::consts::PI\b", "F::pi()"),
        ("R3", r"\bstd::f64::MIN\b", "F::min_value()"),
        ("R3", r"\bf64::(\w+)\s*\(", r"F::\1("),
        ("R1", r"\bPI\b", "F::pi()"),
        ("R2", r"\(([^()]*(?:\([^()]*\)[^()]*)*)\)\.(ceil|floor)\(\)\s+as\s+i64", r"F::\2_i64(\1)"),
        ("R1", _float_lits, None),
        # casts are inserted here by expand()
        ("R1", r"\bf64\b", "F"),
    ],
    "rand": [
        ("R7", r"<\s*R\s*:\s*Rng\s*\+\s*\?Sized\s*>", ""),
        ("R7", r"&mut\s+R\b", "&mut Pcg64Mcg"),
    ],
    "nalgebra": [
        # m[(r, c)] = e;   ->  m.set_at(r, c, e);
        ("R11", r"(\b[\w.]+)\s*\[\(\s*([^,()\]]+),\s*([^,()\]]+)\)\]\s*=\s*([^;=][^;]*);", r"\1.set_at(\2, \3, \4);"),
        ("R11", r"(\b[\w.]+(?:\(\))?)\s*\[\(\s*([^,()\]]+),\s*([^,()\]]+)\)\]", r"\1.at(\2, \3)"),
        # point - point (nalgebra gives a vector)
        ("R11", r"\(\s*([\w.]+(?:\(\))?)\s*-\s*([\w.:]+(?:\(\))?)\s*\)\s*\.\s*norm_squared\(\)", r"\1.sub_p(&\2).norm_squared()"),
        ("R11", r"\bPoint2<F>", "Point2"),
        ("R11", r"\bPoint2<f64>", "Point2"),
        ("R11", r"\bTranslation2<f64>", "Translation2"),
        ("R11", r"\bMatrix3<f64>", "Matrix3"),
        ("R11", r"\bnalgebra::", ""),
    ],
}


def expand(groups, casts):
    out = []
    for g in groups:
        if g not in GROUPS:
            raise ExtractError("unknown rule group " + g)
        for r in GROUPS[g]:
            if g == "float" and r[1] == r"\bf64\b":
                out.append(("R2", _casts(casts), None))
            out.append(r)
    return out
