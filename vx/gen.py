"""@gen NAME ARGS: spec text generated mechanically from /repo's current source (code-derived SHAPES, never postconditions).

stage_keys FILE FN -- the configurations of the optimisation stages of one replica in the CLI pipeline.  The property (C10) speaks of
"the replicas"; what a replica is -- how many stages, with which settings -- is the code's business.  The generator reads every
`optimiser.clone()<setters>.build().optimise_state(ARG)` chain of FN in order and emits one spec function per stage plus
`replica`, so that retuning a stage does not disturb the check.  Literal settings are understood, and for the seed any
sum/difference/product of literals, the replica index and the replica count (a replica that depends on the count is a legitimate
thing to express: the monotonicity lemma of C10 then fails); anything else is outside the stated subset and makes the unit undecided."""
import os
import re

from . import rustsrc as R
from .rustsrc import ExtractError

_FLOAT = re.compile(r"^-?(\d+\.\d*|\d*\.\d+)$")
_INT = re.compile(r"^\d+$")


def _real(a):
    if not _FLOAT.match(a):
        return None
    x = a if not a.endswith(".") else a + "0"
    x = ("0" + x) if x.startswith(".") else x
    return x + "real"


def _scalar_u64(a, idx="index", cnt="start_configs"):
    """literal | index | start_configs | sums, differences and products of these -> spec expression over i (replica index), n (replica count)"""
    toks = re.findall(r"\d+|[A-Za-z_]\w*|[-+*()]", a)
    if "".join(toks) != a or not toks:
        return None
    out = []
    for t in toks:
        if t == idx:
            out.append("(i as int)")
        elif t == cnt:
            out.append("(n as int)")
        elif _INT.match(t):
            out.append(t + "int")
        elif t in "+-*()":
            out.append(t)
        else:
            return None
    if len(toks) == 1:
        return "i" if toks[0] == idx else ("n" if toks[0] == cnt else (toks[0] if _INT.match(toks[0]) else None))
    return "((%s) as u64)" % " ".join(out)


def stage_keys(repo, args):
    file, fn = args.split()
    text = open(os.path.join(repo, file)).read()
    s, e = R.find_fn(text, fn, None)
    body = R.strip_comments(text[s:e])
    chain = re.compile(r"optimiser\s*\.\s*clone\(\)((?:\s*\.\s*\w+\([^()]*(?:\([^()]*\))?[^()]*\))*?)\s*\.\s*build\(\)\s*\.\s*optimise_state\(\s*([^()]*(?:\(\))?)\s*\)")
    stages = chain.findall(body)
    if not stages:
        raise ExtractError("gen stage_keys: no `optimiser.clone()...build().optimise_state(..)` chain in %s" % fn)
    if body.count("optimise_state(") != len(stages):
        raise ExtractError("gen stage_keys: an optimise_state call of %s is not of the understood form" % fn)
    # names are read off the code: the replica index is the parameter of the first closure after `(0..COUNT).into_par_iter()`,
    # later stages receive `(index, previous result)`, the starting state is the parameter of type `impl State`
    msrc = re.search(r"\(\s*0\s*\.\.\s*(\w+)\s*\)\s*\.\s*into_par_iter\(\)\s*\.\s*map\(\s*(?:move\s+)?\|\s*(\w+)\s*\|", body)
    mstate = re.search(r"(\w+)\s*:\s*impl\s+State\b", body)
    if not msrc or not mstate:
        raise ExtractError("gen stage_keys: `(0..count).into_par_iter().map(|index| ..)` over a `state: impl State` parameter not found in %s" % fn)
    cnt, idx, st0 = msrc.group(1), msrc.group(2), mstate.group(1)
    later = re.findall(r"\.\s*map\(\s*(?:move\s+)?\|\s*\(\s*(\w+)\s*,\s*(\w+)\s*\)\s*\|", body)
    if len(later) != len(stages) - 1 or any(a != idx for a, _ in later):
        raise ExtractError("gen stage_keys: the stages of %s after the first do not all take `(%s, previous result)`" % (fn, idx))
    out = []
    for n, (setters, arg) in enumerate(stages, 1):
        arg = "".join(arg.split())
        if (n == 1 and arg != st0 + ".clone()") or (n > 1 and arg != later[n - 2][1]):
            raise ExtractError("gen stage_keys: stage %d of %s optimises `%s` (expected %s)" % (n, fn, arg, st0 + ".clone()" if n == 1 else "the previous stage's result"))
        upd = {}
        for name, a in re.findall(r"\.\s*(\w+)\(\s*([^()]*(?:\([^()]*\))?[^()]*?)\s*\)", setters):
            a = "".join(a.split())
            m = re.match(r"^Some\((.*)\)$", a)
            if name in ("kt_start", "max_step_size"):
                r = _real(a)
                if r is None:
                    raise ExtractError("gen stage_keys: %s(%s) is not a literal" % (name, a))
                upd[name] = r
                if name == "kt_start":
                    upd["kt_start_pz"] = "true" if float(a) == 0.0 and not a.startswith("-") else "false"
            elif name == "kt_finish":
                r = _real(a)
                if r is None:
                    raise ExtractError("gen stage_keys: kt_finish(%s) is not a literal" % a)
                upd[name] = "Some(%s)" % r
            elif name in ("kt_ratio", "convergence"):
                if a == "None":
                    upd[name] = "None"
                elif m and _real(m.group(1)):
                    upd[name] = "Some(%s)" % _real(m.group(1))
                else:
                    raise ExtractError("gen stage_keys: %s(%s) is not None or Some(literal)" % (name, a))
            elif name in ("steps", "inner_steps"):
                if not _INT.match(a):
                    raise ExtractError("gen stage_keys: %s(%s) is not an integer literal" % (name, a))
                upd[name] = a
            elif name == "seed":
                v = _scalar_u64(a, idx, cnt)
                if v is None:
                    raise ExtractError("gen stage_keys: seed(%s) is not an expression over literals, the replica index and the replica count" % a)
                upd[name] = "Some(%s)" % v
            else:
                raise ExtractError("gen stage_keys: unknown setter %s" % name)
        fields = ", ".join("%s: %s" % kv for kv in upd.items())
        out.append("pub open spec fn k%d(o: BuildOptimiser, i: u64, n: u64) -> CfgKey { CfgKey { %s%s..key(o) } }" % (n, fields, ", " if fields else ""))
    expr = "s"
    for n in range(1, len(stages) + 1):
        expr = "opt_r(k%d(o, i, n), %s)" % (n, expr)
    out.append("/// replica i of a run of n: the stages applied in order to a copy of the starting state (generated from %s::%s, %d stages);" % (file, fn, len(stages)))
    out.append("/// a replica that depends on n is expressible, and then the monotonicity lemma of C10 fails")
    out.append("pub open spec fn replica<S>(o: BuildOptimiser, s: S, i: u64, n: u64) -> S { %s }" % expr)
    # the frame of optimise_state (ax_opt_label), once per stage
    calls, cur = [], "s"
    for n in range(1, len(stages) + 1):
        calls.append("ax_opt_label(k%d(o, i, n), %s);" % (n, cur))
        cur = "opt_r(k%d(o, i, n), %s)" % (n, cur)
    out.append("pub proof fn lemma_replica_label<S: State>(o: BuildOptimiser, s: S, i: u64, n: u64) ensures replica(o, s, i, n).label() == s.label() { %s }" % " ".join(calls))
    return "\n".join(out)


GENERATORS = {"stage_keys": stage_keys}
