"""@gen NAME ARGS: spec text generated mechanically from /repo's current source (code-derived SHAPES, never postconditions).

stage_keys FILE FN — the configurations of the optimisation stages of one replica in the CLI pipeline.  The property (C10) speaks of
"the replicas"; what a replica is — how many stages, with which settings — is the code's business.  The generator reads every
`optimiser.clone()<setters>.build().optimise_state(ARG)` chain of FN in order and emits one spec function per stage plus
`replica`, so that retuning a stage does not disturb the check.  Only literal settings and the replica index are understood: anything
else (e.g. a setting that depends on the number of replicas) is outside the stated subset and makes the unit undecided."""
import re

from . import rustsrc as R
from .rustsrc import ExtractError

_FLOAT = re.compile(r"^-?(\d+\.\d*|\d*\.\d+|\d+(\.\d*)?[eE][-+]?\d+)$")
_INT = re.compile(r"^\d+$")


def _real(a):
    m = _FLOAT.match(a)
    if not m:
        return None
    if "e" in a.lower():
        return None
    x = a if not a.endswith(".") else a + "0"
    x = ("0" + x) if x.startswith(".") else x
    return x + "real"


def _scalar_u64(a):
    if _INT.match(a):
        return a
    if a == "index":
        return "i"
    return None


def stage_keys(repo, args):
    import os
    file, fn = args.split()
    text = open(os.path.join(repo, file)).read()
    s, e = R.find_fn(text, fn, None)
    body = R.strip_comments(text[s:e])
    chain = re.compile(r"optimiser\s*\.\s*clone\(\)((?:\s*\.\s*\w+\([^()]*(?:\([^()]*\))?[^()]*\))*?)\s*\.\s*build\(\)\s*\.\s*optimise_state\(\s*([^()]*(?:\(\))?)\s*\)")
    stages = chain.findall(body)
    if not stages:
        raise ExtractError("gen stage_keys: no `optimiser.clone()...build().optimise_state(..)` chain in %s" % fn)
    if body.count("optimise_state(") != len(stages):
        raise ExtractError("gen stage_keys: an optimise_state call of %s is not of the understood form" % fn)
    out = []
    for n, (setters, arg) in enumerate(stages, 1):
        arg = "".join(arg.split())
        if (n == 1 and arg != "state.clone()") or (n > 1 and arg != "opt_state"):
            raise ExtractError("gen stage_keys: stage %d of %s optimises `%s` (expected %s)" % (n, fn, arg, "state.clone()" if n == 1 else "the previous stage's result"))
        upd = {}
        for name, a in re.findall(r"\.\s*(\w+)\(\s*([^()]*(?:\([^()]*\))?[^()]*?)\s*\)", setters):
            a = "".join(a.split())
            opt = None
            if a == "None":
                opt = "None"
            m = re.match(r"^Some\((.*)\)$", a)
            if name in ("kt_start", "max_step_size"):
                r = _real(a)
                if r is None:
                    raise ExtractError("gen stage_keys: %s(%s) is not a literal" % (name, a))
                upd[name] = r
                if name == "kt_start":
                    upd["kt_start_pz"] = "true" if float(a) == 0.0 and not a.startswith("-") else "false"
            elif name == "kt_finish":
                r = _real(a)
                if r is None:
                    raise ExtractError("gen stage_keys: kt_finish(%s) is not a literal" % a)
                upd[name] = "Some(%s)" % r
            elif name in ("kt_ratio", "convergence"):
                if opt:
                    upd[name] = "None"
                elif m and _real(m.group(1)):
                    upd[name] = "Some(%s)" % _real(m.group(1))
                else:
                    raise ExtractError("gen stage_keys: %s(%s) is not None or Some(literal)" % (name, a))
            elif name in ("steps", "inner_steps"):
                v = a if _INT.match(a) else None
                if v is None:
                    raise ExtractError("gen stage_keys: %s(%s) is not an integer literal" % (name, a))
                upd[name] = v
            elif name == "seed":
                v = _scalar_u64(a)
                if v is None:
                    raise ExtractError("gen stage_keys: seed(%s) is neither a literal nor the replica index" % a)
                upd[name] = "Some(%s)" % v
            else:
                raise ExtractError("gen stage_keys: unknown setter %s" % name)
        fields = ", ".join("%s: %s" % kv for kv in upd.items())
        out.append("pub open spec fn k%d(o: BuildOptimiser, i: u64) -> CfgKey { CfgKey { %s%s..key(o) } }" % (n, fields, ", " if fields else ""))
    expr = "s"
    for n in range(1, len(stages) + 1):
        expr = "opt_r(k%d(o, i), %s)" % (n, expr)
    out.append("/// replica i: the stages applied in order to a copy of the starting state (generated from %s::%s, %d stages)" % (file, fn, len(stages)))
    out.append("pub open spec fn replica<S>(o: BuildOptimiser, s: S, i: u64) -> S { %s }" % expr)
    # the frame of optimise_state (ax_opt_label), once per stage
    calls, cur = [], "s"
    for n in range(1, len(stages) + 1):
        calls.append("ax_opt_label(k%d(o, i), %s);" % (n, cur))
        cur = "opt_r(k%d(o, i), %s)" % (n, cur)
    out.append("pub proof fn lemma_replica_label<S: State>(o: BuildOptimiser, s: S, i: u64) ensures replica(o, s, i).label() == s.label() { %s }" % " ".join(calls))
    return "\n".join(out)


GENERATORS = {"stage_keys": stage_keys}
