"""Premises of ASSUMED contracts on dependencies (DESIGN I.1, step 4c).

The serde derive macros are not verified.  The ledger assumes of them: `#[derive(Serialize, Deserialize)]` on a struct with
no `#[serde(..)]` attribute writes every field under its own name and reads every field back.  That assumption has a
hypothesis about /repo's own text — the struct carries both derives and no serde attribute — and this module checks the
hypothesis on the text extracted from the working tree on every run.  A premise that holds is NOT counted as a discharged
proof obligation (nothing is proved about the derive); a premise that no longer holds means the assumed contract does not
apply any more: the driver then runs the native round-trip oracle, and reports a violation only with a failing input."""
import os
import re

from . import rustsrc as RS


def serde_plain(repo, file, struct):
    """-> (status, detail, text) with status in holds / broken / lost"""
    path = os.path.join(repo, file)
    try:
        text = open(path).read()
        s, e = RS.find_struct(text, struct)
    except (OSError, RS.ExtractError) as ex:
        return "lost", "%s: %s" % (file, ex), ""
    body = RS.strip_comments(text[s:e])
    derives = set()
    for m in re.finditer(r"#\[derive\(([^)]*)\)\]", body):
        derives |= set(x.strip().split("::")[-1] for x in m.group(1).split(","))
    missing = [d for d in ("Serialize", "Deserialize") if d not in derives]
    attrs = re.findall(r"#\[\s*serde\b[^\]]*\]", body)
    line = RS.line_of(text, s)
    if missing:
        return "broken", "%s:%d %s no longer derives %s" % (file, line, struct, "/".join(missing)), body
    if attrs:
        return "broken", "%s:%d %s carries %s" % (file, line, struct, ", ".join(attrs)), body
    return "holds", "%s:%d %s derives Serialize, Deserialize with no serde attribute" % (file, line, struct), body


KINDS = {"serde-plain": serde_plain}


def run(repo, name, meta):
    st, detail, text = KINDS[meta["kind"]](repo, meta["file"], meta["struct"])
    return dict(name=name, status=st, detail=detail, text=text, oracle=meta.get("oracle"))
