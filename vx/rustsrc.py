"""Locate items in Rust source text by brace matching on comment/string-blanked text.

Nothing here interprets Rust beyond: comments, string/char literals, and bracket nesting.
All offsets refer to the original text, so extracted text is the original characters.
"""
import re


class ExtractError(Exception):
    """Anchor not found / construct outside the rule list -> exit 2, never an alarm."""


def segments(text):
    """Yield (kind, start, end) with kind in code|comment|str|char covering the text."""
    i, n = 0, len(text)
    code_start = 0
    while i < n:
        c = text[i]
        if text.startswith("//", i):
            j = text.find("\n", i)
            j = n if j < 0 else j
            kind = "comment"
        elif text.startswith("/*", i):
            depth, j = 1, i + 2
            while j < n and depth:
                if text.startswith("/*", j):
                    depth += 1; j += 2
                elif text.startswith("*/", j):
                    depth -= 1; j += 2
                else:
                    j += 1
            kind = "comment"
        elif c == '"':
            j = i + 1
            while j < n and text[j] != '"':
                j += 2 if text[j] == "\\" else 1
            j = min(j + 1, n)
            kind = "str"
        elif c == "'":
            m = re.match(r"'(\\.|[^\\'])'", text[i:i + 4]) or re.match(r"'\\u\{[0-9a-fA-F]+\}'", text[i:i + 12])
            if not m:
                i += 1
                continue
            j = i + m.end()
            kind = "char"
        else:
            i += 1
            continue
        if code_start < i:
            yield ("code", code_start, i)
        yield (kind, i, j)
        i = j
        code_start = j
    if code_start < n:
        yield ("code", code_start, n)


def blank(text):
    """Text of equal length with comments and the contents of string/char literals replaced by
    spaces (newlines kept), so bracket matching and keyword search are not fooled."""
    out = []
    for kind, s, e in segments(text):
        seg = text[s:e]
        if kind == "code":
            out.append(seg)
        elif kind == "comment":
            out.append("".join("\n" if ch == "\n" else " " for ch in seg))
        else:
            out.append(seg[0] + "".join("\n" if ch == "\n" else " " for ch in seg[1:-1]) + seg[-1])
    return "".join(out)


def strip_comments(text):
    """Remove comments only (string contents kept). Line structure preserved."""
    out = []
    for kind, s, e in segments(text):
        seg = text[s:e]
        if kind == "comment":
            out.append("".join(ch for ch in seg if ch == "\n"))
        else:
            out.append(seg)
    return "\n".join(l.rstrip() for l in "".join(out).split("\n"))


_OPEN = {"(": ")", "[": "]", "{": "}"}
_CLOSE = {v: k for k, v in _OPEN.items()}


def match_close(b, i):
    """b: blanked text; i: offset of an opening bracket. Returns offset of its partner."""
    stack = []
    n = len(b)
    j = i
    while j < n:
        c = b[j]
        if c in _OPEN:
            stack.append(c)
        elif c in _CLOSE:
            if not stack or stack[-1] != _CLOSE[c]:
                raise ExtractError("unbalanced bracket at offset %d" % j)
            stack.pop()
            if not stack:
                return j
        j += 1
    raise ExtractError("unterminated bracket at offset %d" % i)


def find_body_open(b, start):
    """Offset of the `{` that opens the body of the item whose header starts at `start`
    (skipping (), [], <> is not needed: headers never contain `{` before the body here,
    except inside parentheses which we skip)."""
    j = start
    n = len(b)
    while j < n:
        c = b[j]
        if c in "([":
            j = match_close(b, j)
        elif c == "{":
            return j
        elif c == ";":
            raise ExtractError("item without body at offset %d" % start)
        j += 1
    raise ExtractError("no body found from offset %d" % start)


def impl_blocks(text):
    """Yield (header_text, body_open, body_close) for every `impl` block."""
    b = blank(text)
    for m in re.finditer(r"(?m)^[ \t]*(?:unsafe[ \t]+)?impl\b", b):
        s = m.end()
        try:
            o = find_body_open(b, s)
        except ExtractError:
            continue
        header = " ".join(text[s:o].split())
        yield header, o, match_close(b, o)


def find_fn(text, fn_name, impl_re=None, nth=0):
    """Return (start, end) offsets of `fn fn_name` (from `pub`/`fn` through the closing brace).
    impl_re: regex that must match the (whitespace-normalised) impl header, or None for a free fn."""
    b = blank(text)
    regions = []
    if impl_re is None:
        regions.append((0, len(text)))
    else:
        for header, o, c in impl_blocks(text):
            if re.search(impl_re, header):
                regions.append((o, c))
        if not regions:
            raise ExtractError("impl matching /%s/ not found" % impl_re)
    hits = []
    for (lo, hi) in regions:
        for m in re.finditer(r"(?:pub(?:\([a-z]+\))?[ \t]+)?fn[ \t]+%s\b" % re.escape(fn_name), b[lo:hi]):
            s = lo + m.start()
            o = find_body_open(b, lo + m.end())
            e = match_close(b, o)
            if impl_re is None:
                # free function: must be at brace depth 0
                depth = b[:s].count("{") - b[:s].count("}")
                if depth != 0:
                    continue
            hits.append((s, e + 1))
    if len(hits) <= nth:
        raise ExtractError("fn %s (impl /%s/) not found" % (fn_name, impl_re))
    return hits[nth]


def find_macro(text, name, arg_re):
    """Return (start, end, inner_start, inner_end) of `name!( ... )` whose argument text matches arg_re."""
    b = blank(text)
    for m in re.finditer(r"\b%s!\s*([(\[{])" % re.escape(name), b):
        o = m.end() - 1
        c = match_close(b, o)
        inner = text[o + 1:c]
        if re.search(arg_re, " ".join(inner.split())):
            return m.start(), c + 1, o + 1, c
    raise ExtractError("macro %s! matching /%s/ not found" % (name, arg_re))


def find_struct(text, name, with_attrs=True):
    """struct or enum definition (brace, tuple or unit form), optionally with the attribute lines above it"""
    b = blank(text)
    m = re.search(r"(?:pub[ \t]+)?(?:struct|enum)[ \t]+%s\b" % re.escape(name), b)
    if not m:
        raise ExtractError("struct/enum %s not found" % name)
    j = m.end()
    while j < len(b) and b[j] not in "{(;":
        j += 1
    if j >= len(b):
        raise ExtractError("struct %s: no body" % name)
    if b[j] == "{":
        end = match_close(b, j) + 1
    elif b[j] == "(":
        c = match_close(b, j)
        end = b.index(";", c) + 1
    else:
        end = j + 1
    start = m.start()
    if with_attrs:
        # walk back over attribute lines directly above
        while True:
            ls = text.rfind("\n", 0, start) + 1 if start > 0 else 0
            prev_end = ls - 1
            if prev_end <= 0:
                break
            pls = text.rfind("\n", 0, prev_end) + 1
            line = text[pls:prev_end]
            if line.strip().startswith("#["):
                start = pls
            else:
                break
    return start, end


def line_of(text, off):
    return text.count("\n", 0, off) + 1
