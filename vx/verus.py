"""Run Verus on a generated unit and map every diagnostic to a named obligation."""
import json
import os
import re
import subprocess
import time

VERIFY_FAIL = [
    "postcondition not satisfied",
    "precondition not satisfied",
    "invariant not satisfied",
    "assertion failed",
    "requires not satisfied",
    "possible arithmetic underflow/overflow",
    "possible division by zero",
    "possible bit shift underflow/overflow",
    "decreases not satisfied",
    "could not prove termination",
    "loop must have a decreases clause",
    "unreachable",
    "assertion failed in body",
    "failed precondition",
    "recommendation not met",
    "index out of bounds",
    "could not show invariant",
    "cannot show invariant",
]
TOOL_LIMIT = ["Resource limit", "rlimit", "resource limit", "timed out", "timeout"]


class VerusResult:
    def __init__(self):
        self.failures = []     # dict(obligation, props, message, gen_line, src, text, kind)
        self.tool_errors = []  # strings
        self.verified = 0
        self.errors = 0
        self.time_s = 0.0
        self.smt_ms = 0
        self.raw = ""
        self.cmd = ""


def run(unit, path, rlimit=60, timeout=600, extra=None):
    """unit: vx.unit.Unit already written to `path`."""
    cmd = ["verus", path, "--output-json", "--time", "--error-format=json", "--multiple-errors", "30",
           "--rlimit", str(rlimit)] + (extra or [])
    t0 = time.time()
    res = VerusResult()
    res.cmd = " ".join(cmd)
    try:
        p = subprocess.run(cmd, capture_output=True, text=True, timeout=timeout, cwd=os.path.dirname(path))
    except subprocess.TimeoutExpired:
        res.tool_errors.append("verus timed out after %ds on %s" % (timeout, path))
        res.time_s = time.time() - t0
        return res
    res.time_s = time.time() - t0
    res.raw = p.stderr
    try:
        j = json.loads(p.stdout)
        vr = j.get("verification-results", {})
        res.verified = vr.get("verified", 0)
        res.errors = vr.get("errors", 0)
        res.smt_ms = j.get("times-ms", {}).get("smt", {}).get("total", 0)
        if vr.get("encountered-vir-error"):
            res.tool_errors.append("verus VIR error (unsupported construct)")
    except Exception:
        res.tool_errors.append("verus produced no JSON result (exit %s): %s" % (p.returncode, p.stdout[:300]))
    for line in p.stderr.split("\n"):
        line = line.strip()
        if not line.startswith("{"):
            continue
        try:
            d = json.loads(line)
        except Exception:
            continue
        if d.get("level") != "error":
            continue
        msg = d.get("message", "")
        if msg.startswith("aborting due to"):
            continue
        if any(t in msg for t in TOOL_LIMIT):
            res.tool_errors.append("verus resource limit: " + msg)
            continue
        if d.get("code") is not None or not any(v in msg for v in VERIFY_FAIL):
            res.tool_errors.append("verus/rustc error: %s %s" % (msg, _first_span(d)))
            continue
        res.failures.append(_map_failure(unit, d, msg))
    if res.errors and not res.failures and not res.tool_errors:
        res.tool_errors.append("verus reported %d errors but none could be parsed" % res.errors)
    return res


def _first_span(d):
    for s in d.get("spans", []):
        if s.get("is_primary"):
            return "at generated line %d: %s" % (s["line_start"], (s.get("text") or [{}])[0].get("text", "").strip()[:160])
    return ""


def _map_failure(unit, d, msg):
    spans = d.get("spans", [])
    prim = [s for s in spans if s.get("is_primary")] or spans
    sec = [s for s in spans if not s.get("is_primary")]
    clause = None
    src = None
    gen_line = prim[0]["line_start"] if prim else 0
    text = (prim[0].get("text") or [{}])[0].get("text", "").strip() if prim else ""
    # a clause anywhere in the spans names the obligation; prefer primary
    for s in prim + sec:
        for ln in range(s["line_start"], s["line_end"] + 1):
            o = unit.origin_of(ln)
            if o and o[0] == "clause" and clause is None:
                clause = o[1]
            if o and o[0] == "src" and src is None:
                src = (o[1], o[2], o[3])
    kind = "clause"
    if clause is not None and not (clause.kind == "requires"):
        ob = "V:%s:%s:%s" % (unit.name, clause.fn, clause.id or clause.kind)
        props = list(clause.props)
    elif clause is not None:
        # a callee's precondition failed at a call site in real code
        ob = "V:%s:%s:call-pre:%s.%s" % (unit.name, src[2] if src else "?", clause.fn, clause.id or "requires")
        props = _fn_props(unit, src[2]) if src else list(clause.props)
        if clause.props:
            props = sorted(set(props) | set(clause.props))
        kind = "call-pre"
    elif src is not None:
        short = re.sub(r"[^a-z]+", "-", msg.lower()).strip("-")[:40]
        ob = "V:%s:%s:body:%s" % (unit.name, src[2], short)
        props = _fn_props(unit, src[2])
        kind = "body"
    else:
        # failure inside inserted proof text or prelude
        o = unit.origin_of(gen_line)
        fn = o[2] if o and len(o) > 2 else "?"
        ob = "V:%s:%s:hint@%d" % (unit.name, fn, gen_line)
        props = _fn_props(unit, fn) if fn != "?" else []
        if o and len(o) > 3 and o[3]:
            props = list(o[3])
        kind = "hint"
    return dict(obligation=ob, props=props, message=msg, gen_line=gen_line,
                src=("%s:%d" % (src[0], src[1]) if src else None), text=text[:300], kind=kind,
                rendered=d.get("rendered", "")[:3000])


def _fn_props(unit, fn):
    for f in unit.functions:
        if f["name"] == fn and f.get("props"):
            return list(f["props"])
    return []
