"""check <Cxx> <quick|thorough> [--replay path]  — decide one property on /repo's current working tree."""
import concurrent.futures as cf
import json
import os
import re
import shutil
import sys
import tempfile
import time

from . import unit as U
from . import verus as V
from . import kani as K
from . import lemma as L
from . import registry as REG
from . import witness as W
from . import premise as P
from .rustsrc import ExtractError

VERIF = os.path.dirname(os.path.dirname(os.path.abspath(__file__)))
REPO = os.environ.get("VERIF_REPO", "/repo")


def _known():
    p = os.path.join(VERIF, "known_findings.json")
    if not os.path.exists(p):
        return []
    return json.load(open(p)).get("findings", [])


def main(argv):
    if len(argv) < 2 or argv[0] not in REG.PROPS:
        sys.stderr.write("usage: check <%s> <quick|thorough> [--replay PATH]\n" % "|".join(sorted(REG.PROPS)))
        return 2
    pid = argv[0]
    tier = argv[1] if argv[1] in ("quick", "thorough") else os.environ.get("VERIF_TIER", "quick")
    if "--replay" in argv:
        return replay(pid, argv[argv.index("--replay") + 1])
    seed = int(os.environ.get("VERIF_SEED", "0") or 0)
    return check(pid, tier, seed)


def replay(pid, path):
    """A replay file names the failed obligation and carries the verifier output (Verus/z3 give no
    model); for Kani failures it also carries the concrete playback test.  Replaying = re-running
    the property's quick check and reporting whether the same obligation still fails."""
    if not os.path.exists(path):
        sys.stderr.write("replay file not found: %s\n" % path)
        return 2
    txt = open(path).read()
    m = re.search(r"^obligation: (\S+)", txt, re.M)
    sys.stdout.write(txt[:4000] + "\n")
    rc = check(pid, "quick", 0, only_report=m.group(1) if m else None)
    return rc


def check(pid, tier, seed, only_report=None):
    t0 = time.time()
    prop = REG.PROPS[pid]
    pids = [pid] + list(getattr(REG, "DEPENDS", {}).get(pid, []))   # the property and those it presupposes

    def serves(props):
        return any(q in props for q in pids)
    work = tempfile.mkdtemp(prefix="vx-%s-" % pid)
    tool_errors = []
    failures = []          # relevant to pid
    other_failures = []    # other properties' obligations that failed in the same units
    ob_total = 0
    ob_discharged = 0
    ob_bounded = 0
    ob_bounded_ok = 0
    samples = []
    functions = []
    rules = {}
    trusted = set()
    backends = {}
    cmds = []
    units = {}
    try:
        # ---------------- V: build units
        for un in prop.get("units", []):
            try:
                u = U.build(os.path.join(VERIF, "units", un + ".unit"), REPO)
                path = os.path.join(work, un + ".rs")
                U.write(u, path)
                units[un] = (u, path)
            except ExtractError as e:
                tool_errors.append("extraction failed for unit %s: %s" % (un, e))
        # thorough tier: vacuity canaries — every function with a precondition gets `ensures false`, which must fail
        canary_units = {}
        if tier == "thorough":
            for un in prop.get("units", []):
                try:
                    cu = U.build(os.path.join(VERIF, "units", un + ".unit"), REPO, canary=True)
                    cpath = os.path.join(work, un + "_canary.rs")
                    U.write(cu, cpath)
                    canary_units[un] = (cu, cpath)
                except ExtractError:
                    pass
        vres = {}
        kres = None
        lres = []
        rl = 60 if tier == "quick" else 240
        with cf.ThreadPoolExecutor(max_workers=8) as ex:
            futs = {un: ex.submit(V.run, u, path, rl) for un, (u, path) in units.items()}
            kh = [h for h in prop.get("kani", []) if tier == "thorough" or not REG.KANI[h].get("thorough_only")]
            if os.environ.get("VERIF_SKIP_KANI") == "1":   # self-test convenience only; never set by the registered commands
                kh = []
            kf = ex.submit(_run_kani, kh, tier) if kh else None
            lf = [ex.submit(L.run, name, work, tier) for name in prop.get("lemmas", [])]
            cfuts = {un: ex.submit(V.run, cu, cpath, rl) for un, (cu, cpath) in canary_units.items()}
            for un, f in futs.items():
                vres[un] = f.result()
            for un, f in cfuts.items():
                cr = f.result()
                cu = canary_units[un][0]
                failed_fns = set(x["obligation"].split(":")[2] for x in cr.failures if x["obligation"].endswith(":__canary__"))
                vac = [fn for fn in cu.canaries if fn not in failed_fns]
                backends.setdefault("canary", dict(functions=0, vacuous=[]))
                backends["canary"]["functions"] += len(cu.canaries)
                if vac and not cr.tool_errors:
                    backends["canary"]["vacuous"] += vac
                    tool_errors.append("[%s] vacuity: `ensures false` verified for %s — contradictory precondition or inconsistent axioms" % (un, ", ".join(vac)))
            if kf:
                kres = kf.result()
            lres = [f.result() for f in lf]
        # ---------------- V: account
        for un, (u, path) in units.items():
            r = vres[un]
            cmds.append(r.cmd.replace(work, "<work>"))
            backends.setdefault("verus", dict(units=0, seconds=0.0, smt_ms=0))
            backends["verus"]["units"] += 1
            backends["verus"]["seconds"] += round(r.time_s, 2)
            backends["verus"]["smt_ms"] += r.smt_ms
            for e in r.tool_errors:
                tool_errors.append("[%s] %s" % (un, e))
            for e in [x for q in pids for x in u.lost_hints.get(q, [])]:
                tool_errors.append("[%s] optional proof-hint anchor lost (%s): obligations of %s that need it are undecided" % (un, e, pid))
            for k, v in u.rule_counts.items():
                rules[k] = rules.get(k, 0) + v
            for t in u.trusted:
                trusted.add("verus %s: %s" % (un, t[:200]))
            for (su, sf, sc) in u.imports:
                # a shim whose contract text is read from the unit that proves it: not an assumption as long as that unit is built too
                if su in units:
                    backends.setdefault("imported_clauses", [])
                    backends["imported_clauses"].append("%s assumes %s:%s:%s, proved in this run as V:%s:%s:%s (same text)" % (un, su, sf, sc, su, sf, sc))
                else:
                    trusted.add("verus %s: shim assumes clause %s:%s:%s of unit %s, which this check does not build" % (un, su, sf, sc, su))
            failed_ids = {}
            # A function's postconditions are proved FROM its loop invariants, proof hints and body-safety obligations (the invariant is
            # assumed at loop exit): when one of those fails, every clause of that function has lost its proof.  Such a failure therefore
            # counts for every property that some clause of the same function serves, not only for the tags on the failed line
            # (seed X12/1: `radial.inv`, tagged C02, failed; `radial.edges`, tagged C02 and C12, still "verified" on top of it).
            fn_union = {}
            for c in u.clauses:
                fn_union.setdefault(c.fn, set()).update(c.props)
            for x in u.functions:
                if x["kind"] == "fn":
                    fn_union.setdefault(x["name"], set()).update(x.get("props", []))
            clause_kind = {"V:%s:%s:%s" % (un, c.fn, c.id or c.kind): c.kind for c in u.clauses}
            for f in r.failures:
                ob = f["obligation"]
                supporting = f["kind"] in ("body", "hint", "call-pre") or clause_kind.get(ob, "") in ("invariant", "invariant_except_break", "decreases")
                if supporting and "SHAPE" not in f["props"]:
                    fn_ = ob.split(":")[2]
                    f["props"] = sorted(set(f["props"]) | (fn_union.get(fn_, set()) - {"SHAPE"}))
                failed_ids.setdefault(ob, f)
            mine = [c for c in u.clauses if serves(c.props) and c.kind != "requires"]
            fn_with = sorted(set(c.fn for c in mine))
            for f in u.functions:
                if f["kind"] == "fn" and (f["name"] in fn_with or serves(f.get("props", []))):
                    functions.append("%s::%s (%s:%d, %d clauses)" % (un, f["name"], f["file"], f["line"], f.get("clauses", 0)))
            # one body-safety obligation per function whose default props include pid
            body_fns = [f for f in u.functions if f["kind"] == "fn" and serves(f.get("props", []))]
            ob_total += len(mine) + len(body_fns)
            if not r.tool_errors:
                bad_clause = set()
                bad_body = set()
                for ob, f in failed_ids.items():
                    if f["obligation"].split(":")[2] in u.lost_fns:
                        # the function lost an optional proof hint (its anchor is gone after a restructuring): what then fails to verify in it is
                        # an unproved obligation, not a refuted one — undecided for the properties it serves, never an alarm
                        if serves(f["props"]):
                            tool_errors.append("[%s] %s failed in a function that lost a proof hint: undecided" % (un, ob))
                        continue
                    if "SHAPE" in f["props"]:
                        # a code-derived shape clause (DESIGN I.1): it pins down HOW the code does something the property does
                        # not prescribe; when it stops matching, the obligations built on it are undecided, never an alarm
                        fn_ = f["obligation"].split(":")[2]
                        if any(x["name"] == fn_ and serves(x.get("props", [])) for x in u.functions):
                            tool_errors.append("[%s] shape clause %s no longer matches the code (%s): the obligations of %s that are stated through it are undecided" % (un, ob, f["message"][:120], pid))
                        continue
                    if serves(f["props"]):
                        failures.append(f)
                        if f["kind"] == "clause":
                            bad_clause.add(ob)
                        else:
                            bad_body.add(f["obligation"].split(":")[2])
                    else:
                        other_failures.append(f["obligation"])
                ob_discharged += len([c for c in mine if "V:%s:%s:%s" % (un, c.fn, c.id or c.kind) not in bad_clause])
                ob_discharged += len([f for f in body_fns if f["name"] not in bad_body])
            for c in mine[:3]:
                samples.append(dict(obligation="V:%s:%s:%s" % (un, c.fn, c.id), kind=c.kind, text=" ".join(c.text.split())[:400]))
        # ---------------- K
        if kres is not None:
            cmds.append(kres.cmd)
            backends["kani"] = dict(harnesses=len(kres.harness), seconds=round(kres.total_s, 1))
            for e in kres.tool_errors:
                tool_errors.append("[kani] " + e)
            for h in kh:
                meta = REG.KANI[h]
                r = kres.harness.get(h)
                bounded = meta.get("kind") == "bounded"
                if bounded:
                    ob_bounded += 1
                else:
                    ob_total += 1
                if r is None:
                    continue
                functions.append("kani::%s on %s" % (h, meta.get("fn", "?")))
                if r["status"] == "SUCCESS":
                    if bounded:
                        ob_bounded_ok += 1
                    else:
                        ob_discharged += 1
                elif r["status"] == "FAILED":
                    failures.append(dict(obligation="K:%s" % h, props=meta["props"], message="; ".join(r["failed"]),
                                         src=meta.get("fn"), text=r["text"][-1500:], kind="kani", rendered=r["text"][-3000:]))
                samples.append(dict(obligation="K:%s" % h, kind=("bounded: " + meta.get("bound", "")) if bounded else "complete (loop-free, all bit patterns)",
                                    checks=r["checks"], covers="%d/%d" % r["covers"], seconds=r["time_s"], text=meta.get("what", "")))
            trusted.add("kani: CBMC 6.11 float bit-blasting and its powf/sqrt/fmod/floor models; Kani's default NaN/overflow float checks are ignored on purpose")
            post = REG.POST.get(pid)
            if post and set(kh) & set(h for h in REG.KANI if REG.KANI[h].get("covers") == "some"):
                ob_total += REG.POST_COUNT.get(pid, 0)
                if not kres.tool_errors:
                    pf = post(kres)
                    ob_discharged += REG.POST_COUNT.get(pid, 0) - len(pf)
                    failures.extend(pf)
        # ---------------- Z
        for r in lres:
            cmds.append(r["cmd"])
            backends.setdefault("z3", dict(lemmas=0, seconds=0.0))
            backends["z3"]["lemmas"] += 1
            backends["z3"]["seconds"] += round(r["seconds"], 2)
            ob_total += 1
            for e in r["tool_errors"]:
                tool_errors.append("[z3] " + e)
            if r["status"] == "proved":
                ob_discharged += 1
            elif r["status"] == "refuted":
                failures.append(dict(obligation="Z:%s" % r["name"], props=[pid], message="lemma refuted (sat)", src=None,
                                     text=r.get("model", "")[:1500], kind="lemma", rendered=r.get("model", "")[:3000]))
            samples.append(dict(obligation="Z:%s" % r["name"], kind="lemma", text=r.get("statement", "")[:400], seconds=r["seconds"]))
        # ---------------- P: premises of assumed dependency contracts (never counted as proved)
        for name in prop.get("premises", []):
            pr = P.run(REPO, name, REG.PREMISES[name])
            backends.setdefault("premises", dict(checked=0, holding=0, note="hypotheses of ASSUMED dependency contracts, checked on the extracted text; not proof obligations"))
            backends["premises"]["checked"] += 1
            if pr["status"] == "holds":
                backends["premises"]["holding"] += 1
                if backends["premises"]["checked"] <= 2:
                    samples.append(dict(obligation="P:%s" % name, kind="premise of an assumed contract (not a proof)", text=pr["detail"]))
            elif pr["status"] == "lost":
                tool_errors.append("[premise] %s: %s" % (name, pr["detail"]))
            else:
                found = W.search(REPO, [pr["oracle"]], seed) if pr["oracle"] else {}
                wl = found.get(pr["oracle"])
                if wl:
                    failures.append(dict(obligation="P:%s" % name, props=REG.PREMISES[name]["props"], kind="premise", src=REG.PREMISES[name]["file"],
                                         message="the assumed serde-derive contract no longer applies (%s) and the round trip fails" % pr["detail"],
                                         text=pr["text"][:1500], rendered=pr["text"][:3000], cex_native=True,
                                         cex="native oracle replay/witness.rs::%s (seed %d) against the real code:\n%s" % (pr["oracle"], seed, wl)))
                else:
                    tool_errors.append("[premise] %s: %s — the assumed contract no longer applies; the round-trip oracle found no failing input, so this is undecided, not a violation" % (name, pr["detail"]))
    finally:
        shutil.rmtree(work, ignore_errors=True)

    if tier == "thorough" and os.environ.get("VERIF_NO_REPLAY") != "1":
        bad = W.cross_check(REPO, seed)
        backends["native_oracles"] = dict(tests=len(W.ALL_TESTS), failing=sorted(bad))
        for t, w in bad.items():
            tool_errors.append("[oracle] replay/witness.rs::%s fails on a tree where every obligation is discharged: %s" % (t, w[:300]))
    wall = time.time() - t0
    known = [k for k in _known() if k["property"] in pids]
    known_hit = []
    new_viol = []
    for f in failures:
        k = next((k for k in known if k["obligation"] == f["obligation"]), None)
        if k:
            known_hit.append((k, f))
        else:
            new_viol.append(f)

    if tool_errors:
        for e in tool_errors:
            sys.stderr.write("UNDECIDED property=%s: %s\n" % (pid, e))
        _write_evidence(pid, tier, seed, prop, wall, ob_total, ob_discharged, ob_bounded, ob_bounded_ok, samples, functions,
                        rules, trusted, backends, cmds, len(new_viol), other_failures, known_hit, tool_errors)
        # a tool failure is never an alarm (DESIGN 3.7)
        if not new_viol:
            return 2
    rc = 0
    rpdir = os.environ.get("VERIF_REPLAY_DIR", os.path.join(VERIF, "replays"))
    os.makedirs(rpdir, exist_ok=True)
    for k, f in known_hit:
        print("KNOWN-FINDING: property=%s %s — %s" % (pid, f["obligation"], k["what"]))
    # witness search: Verus gives no model; try to find a concrete failing input natively for leaf obligations
    wtests = sorted(set(t for t in (W.test_for(f["obligation"]) for f in new_viol if f["obligation"].startswith("V:")) if t))
    wfound = W.search(REPO, wtests, seed) if (wtests and os.environ.get("VERIF_NO_REPLAY") != "1") else {}
    for f in new_viol:
        t_ = W.test_for(f["obligation"]) if f["obligation"].startswith("V:") else None
        if t_ and wfound.get(t_):
            f["cex"] = "native witness search (replay/witness.rs::%s, seed %d) against the real code:\n%s" % (t_, seed, wfound[t_])
            f["cex_native"] = True
    for f in new_viol:
        if only_report and f["obligation"] != only_report:
            continue
        if f["kind"] == "kani" and os.environ.get("VERIF_NO_REPLAY") != "1":
            rp_ = K.replay(REPO, f["obligation"][2:])
            if rp_["test"]:
                f["cex"] = "Kani concrete playback test (inputs as bytes) below; native run against the real code: %s\n%s\n%s" % (
                    rp_["native"], rp_["test"], rp_["log"])
                f["cex_native"] = rp_["native"] == "failed"
            else:
                f["cex"] = "none — " + rp_["log"]
        rp = os.path.join(rpdir, "%s-%s.txt" % (pid, re.sub(r"[^A-Za-z0-9_.-]+", "_", f["obligation"])))
        with open(rp, "w") as fh:
            fh.write("property: %s\nobligation: %s\nserves: %s\nverifier message: %s\nsource: %s\nfailing text: %s\n"
                     "counterexample: %s\n\n--- verifier output ---\n%s\n" % (
                         pid, f["obligation"], ",".join(f["props"]), f["message"], f.get("src"), f.get("text", ""),
                         f.get("cex", "none (Verus/z3 give no model) — no-failing-input-found"), f.get("rendered", "")))
        tail = "" if f.get("cex_native") else " no-failing-input-found"
        print("VIOLATION property=%s replay=%s obligation=%s%s" % (pid, rp, f["obligation"], tail))
        rc = 1
    _write_evidence(pid, tier, seed, prop, wall, ob_total, ob_discharged, ob_bounded, ob_bounded_ok, samples, functions,
                    rules, trusted, backends, cmds, len(new_viol), other_failures, known_hit, tool_errors)
    if rc == 0 and not tool_errors:
        print("OK property=%s tier=%s obligations=%d discharged=%d bounded=%d/%d known_findings=%d wall=%.1fs" % (
            pid, tier, ob_total, ob_discharged, ob_bounded_ok, ob_bounded, len(known_hit), wall))
    return rc


def _run_kani(hs, tier="quick"):
    some = [h for h in hs if REG.KANI[h].get("covers") == "some"]
    # the largest batch takes about 3 minutes on the unchanged tree; a changed tree can make a harness blow up, which is then a tool
    # error (exit 2) after the limit rather than after 50 minutes
    return K.run(REPO, hs, 16, timeout=1500 if tier == "quick" else 7200, some_covers=some)


def _write_evidence(pid, tier, seed, prop, wall, ob_total, ob_discharged, ob_bounded, ob_bounded_ok, samples, functions,
                    rules, trusted, backends, cmds, nviol, other_failures, known_hit, tool_errors):
    level = prop["level"]
    cov = dict(
        obligations=ob_total,
        discharged=ob_discharged,
        bounded_obligations=ob_bounded,
        bounded_discharged=ob_bounded_ok,
        checker_cmd=" ; ".join(cmds) if cmds else "none",
        trusted_base=sorted(trusted),
        samples=samples[:12] or [dict(note="no obligation ran")],
        functions_under_contract=functions,
        extraction_rules_applied=rules,
        backends=backends,
        explanation=prop["explanation"],
        undecided_clauses=prop.get("undecided", []),
        known_findings=[dict(obligation=f["obligation"], what=k["what"]) for k, f in known_hit],
        other_properties_failing_in_same_units=sorted(set(other_failures)),
        tool_errors=tool_errors,
        exhaustive=False,
    )
    ev = dict(property_id=pid, tier=tier, seed=seed, level=level, coverage=cov,
              assumptions=prop.get("assumptions", []) + REG.COMMON_ASSUMPTIONS, wall_s=round(wall, 2), violations=nviol)
    evdir = os.environ.get("VERIF_EVIDENCE_DIR", os.path.join(VERIF, "evidence"))
    os.makedirs(evdir, exist_ok=True)
    with open(os.path.join(evdir, pid + ".json"), "w") as f:
        json.dump(ev, f, indent=1)
