"""Run Kani harnesses on a scratch copy of /repo's working tree and parse per-harness results.

Only our own assertion / contract / cover checks are read; Kani's default float checks
("NaN on ...", "arithmetic overflow on floating-point ...") are ignored, and that is stated
in the evidence (every harness works on all bit patterns, NaN included, on purpose)."""
import fcntl
import os
import re
import shutil
import subprocess
import tempfile
import time

VERIF = os.path.dirname(os.path.dirname(os.path.abspath(__file__)))
CACHE = os.path.join(VERIF, ".cache")
IGNORED = re.compile(r"^(NaN on |arithmetic overflow on floating-point|inf on |NaN |\[Kani\] unsupported|infinity on )", re.I)


class KaniResult:
    def __init__(self):
        self.harness = {}      # name -> dict(status, failed=[...], covers=(sat,total), time_s)
        self.tool_errors = []
        self.compile_s = 0.0
        self.total_s = 0.0
        self.cmd = ""
        self.raw = ""
        self.playback = {}


def run(repo, harnesses, jobs=8, timeout=3000, playback=False, fmt="terse", named_covers=False, some_covers=()):
    """harnesses: list of harness function names (short names)."""
    res = KaniResult()
    if not harnesses:
        return res
    os.makedirs(CACHE, exist_ok=True)
    scratch = tempfile.mkdtemp(prefix="vx-kani-")
    t0 = time.time()
    lock = open(os.path.join(CACHE, "kani.lock"), "w")
    try:
        fcntl.flock(lock, fcntl.LOCK_EX)
        src = os.path.join(scratch, "repo")
        subprocess.check_call(["rsync", "-a", "--no-times", "--exclude", "target", "--exclude", ".git", repo.rstrip("/") + "/", src + "/"])
        cmd = ["cargo", "kani", "--target-dir", os.path.join(CACHE, "kani-target"), "-Z", "function-contracts", "-Z", "stubbing",
               "--output-format", fmt] + (["-j", str(jobs)] if fmt == "terse" else [])
        if playback:
            cmd += ["-Z", "concrete-playback", "--concrete-playback=print"]
        for h in harnesses:
            cmd += ["--harness", h]
        env = dict(os.environ, CARGO_NET_OFFLINE="true")
        res.cmd = "CARGO_NET_OFFLINE=true " + " ".join(cmd)
        # own process group, so that a timeout also ends the cbmc grandchildren
        proc = subprocess.Popen(cmd, cwd=src, env=env, stdout=subprocess.PIPE, stderr=subprocess.PIPE, text=True, start_new_session=True)
        try:
            so, se = proc.communicate(timeout=timeout)
            out = so + "\n" + se
        except subprocess.TimeoutExpired:
            import signal
            try:
                os.killpg(proc.pid, signal.SIGKILL)
            except Exception:
                pass
            so, se = proc.communicate()
            out = (so or "") + "\n" + (se or "")
            res.tool_errors.append("cargo kani timed out after %ds" % timeout)
        res.raw = out
        _parse(res, out, harnesses, named_covers, some_covers)
    finally:
        fcntl.flock(lock, fcntl.LOCK_UN)
        lock.close()
        shutil.rmtree(scratch, ignore_errors=True)
    res.total_s = time.time() - t0
    return res


def _parse(res, out, wanted, named_covers=False, some_covers=()):
    if re.search(r"error(\[E\d+\])?: ", out) and "Checking harness" not in out:
        m = re.search(r"(error(\[E\d+\])?: [^\n]*(\n[^\n]*){0,6})", out)
        res.tool_errors.append("kani/rustc compile error: " + (m.group(1) if m else "?"))
        return
    # lines after "Thread N: " (empty) carry the result of thread N without a prefix: re-associate
    blocks = _reassociate(out)
    for full, lines in blocks.items():
        short = full.split("::")[-1]
        txt = "\n".join(lines)
        st = "UNKNOWN"
        if "VERIFICATION:- SUCCESSFUL" in txt:
            st = "SUCCESS"
        elif "VERIFICATION:- FAILED" in txt:
            st = "FAILED"
        failed = [f.strip() for f in re.findall(r"Failed Checks: ([^\n]*)", txt)]
        real_failed = [f for f in failed if not IGNORED.match(f)]
        mc = re.search(r"\*\* (\d+) of (\d+) cover properties satisfied", txt)
        covers = (int(mc.group(1)), int(mc.group(2))) if mc else (0, 0)
        mt = re.search(r"Verification Time: ([0-9.]+)s", txt)
        mn = re.search(r"\*\* (\d+) of (\d+) failed", txt)
        status = "SUCCESS" if (st in ("SUCCESS", "FAILED") and not real_failed and st != "UNKNOWN") else "FAILED"
        if st == "UNKNOWN":
            status = "UNKNOWN"
        if st == "FAILED" and not failed:
            # failure without a listed check (e.g. unwinding assertion, CBMC error)
            status = "UNKNOWN"
        sat = re.findall(r"- Status: SATISFIED\s*\n\s*- Description: \"([^\"]*)\"", txt)
        if len(txt) > 20000:
            txt = txt[-6000:]
        res.harness[short] = dict(full=full, sat_covers=sat, status=status, failed=real_failed, ignored=[f for f in failed if IGNORED.match(f)],
                                  covers=covers, checks=(int(mn.group(2)) if mn else 0),
                                  time_s=float(mt.group(1)) if mt else 0.0, text=txt[-4000:])
    for h in wanted:
        if h not in res.harness:
            res.tool_errors.append("harness %s produced no result" % h)
    for h, r in res.harness.items():
        if r["status"] == "UNKNOWN":
            res.tool_errors.append("harness %s: no verdict (%s)" % (h, r["text"][-300:].replace("\n", " | ")))
        elif named_covers or h in some_covers:
            if r["status"] == "SUCCESS" and r["covers"][0] < 1:
                res.tool_errors.append("harness %s: vacuity - no cover property satisfied" % h)
        elif r["covers"][0] != r["covers"][1]:
            res.tool_errors.append("harness %s: vacuity - only %d of %d cover properties satisfied" % (h, r["covers"][0], r["covers"][1]))


def _reassociate(out):
    """Kani -j output: 'Thread N: Checking harness X...' announces; the result block is printed as
    'Thread N: ' followed by unprefixed lines up to the next 'Thread' line."""
    running = {}
    blocks = {}
    cur_tid = None
    for line in out.split("\n"):
        m = re.match(r"Thread (\d+): ?(.*)$", line)
        if m:
            tid, txt = m.group(1), m.group(2)
            mh = re.match(r"Checking harness (\S+?)\.\.\.", txt)
            if mh:
                running[tid] = mh.group(1)
                blocks.setdefault(mh.group(1), [])
                cur_tid = None
            else:
                cur_tid = tid
                if tid in running:
                    blocks[running[tid]].append(txt)
            continue
        mh = re.match(r"Checking harness (\S+?)\.\.\.", line)
        if mh:  # single-threaded output
            running["0"] = mh.group(1)
            blocks.setdefault(mh.group(1), [])
            cur_tid = "0"
            continue
        if cur_tid is not None and cur_tid in running:
            blocks[running[cur_tid]].append(line)
    return blocks


def replay(repo, harness, timeout=1500):
    """Counterexample replay for a failed harness: ask Kani for the concrete playback test of the
    failed *assertion* (not the ignored NaN checks), then run it natively (real libm, no stubs)
    with `cargo kani playback`.  Returns dict(test=<source>, native='failed'|'passed'|'error', log=...)."""
    out = dict(test="", native="error", log="")
    os.makedirs(CACHE, exist_ok=True)
    scratch = tempfile.mkdtemp(prefix="vx-kanipb-")
    lock = open(os.path.join(CACHE, "kani.lock"), "w")
    try:
        fcntl.flock(lock, fcntl.LOCK_EX)
        src = os.path.join(scratch, "repo")
        kdir = os.path.join(scratch, "kani")
        subprocess.check_call(["rsync", "-a", "--no-times", "--exclude", "target", "--exclude", ".git", repo.rstrip("/") + "/", src + "/"])
        shutil.copytree(os.path.join(VERIF, "kani"), kdir)
        env = dict(os.environ, CARGO_NET_OFFLINE="true")
        cmd = ["cargo", "kani", "--target-dir", os.path.join(CACHE, "kani-target"), "-Z", "function-contracts", "-Z", "stubbing",
               "-Z", "concrete-playback", "--concrete-playback=print", "--output-format", "terse", "--harness", harness]
        p = subprocess.run(cmd, cwd=src, env=env, capture_output=True, text=True, timeout=timeout)
        txt = p.stdout + p.stderr
        tests = re.findall(r"```\n(.*?)```", txt, re.S)
        pick = None
        for t in tests:
            m = re.search(r"/// Check for `([^`]*)`: \"([^\"]*)\"", t)
            if m and not IGNORED.match(m.group(2)) and "NaN" not in m.group(1):
                pick = t
                break
        if pick is None:
            out["log"] = "kani printed no concrete playback test for an assertion (%d tests for ignored checks)" % len(tests)
            return out
        out["test"] = pick
        mname = re.search(r"fn (kani_concrete_playback_\w+)\(", pick)
        # which module file holds the harness
        target = None
        for fn in os.listdir(kdir):
            if re.search(r"fn %s\b" % re.escape(harness), open(os.path.join(kdir, fn)).read()):
                target = os.path.join(kdir, fn)
        if not (mname and target):
            out["log"] = "could not place the playback test"
            return out
        with open(target, "a") as f:
            f.write("\n" + pick + "\n")
        # re-point the #[path] hooks at the scratch copy of the harness modules
        for root, _, files in os.walk(os.path.join(src, "src")):
            for fn in files:
                pth = os.path.join(root, fn)
                s = open(pth).read()
                if "/verif/kani/" in s:
                    open(pth, "w").write(s.replace(os.path.join(VERIF, "kani") + "/", kdir + "/").replace("/verif/kani/", kdir + "/"))
        env2 = dict(env, CARGO_TARGET_DIR=os.path.join(CACHE, "kani-target-pb"))
        p2 = subprocess.run(["cargo", "kani", "playback", "-Z", "concrete-playback", "--", mname.group(1)],
                            cwd=src, env=env2, capture_output=True, text=True, timeout=timeout)
        t2 = p2.stdout + p2.stderr
        m = re.search(r"test \S*%s \.\.\. (\w+)" % re.escape(mname.group(1)), t2)
        if m and m.group(1) == "FAILED":
            out["native"] = "failed"
            mm = re.search(r"(---- \S*%s stdout ----.*?)(\n\n|failures:)" % re.escape(mname.group(1)), t2, re.S)
            out["log"] = (mm.group(1) if mm else "")[:2000]
        elif m and m.group(1) == "ok":
            out["native"] = "passed"
        else:
            out["log"] = "playback run gave no verdict: " + t2[-600:]
    except Exception as e:  # replay can only upgrade a report, never change a verdict
        out["log"] = "replay error: %r" % (e,)
    finally:
        fcntl.flock(lock, fcntl.LOCK_UN)
        lock.close()
        shutil.rmtree(scratch, ignore_errors=True)
    return out
