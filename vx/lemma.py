"""Back end Z: single-source real-arithmetic lemmas.

A lemma file (/verif/lemmas/NAME.lem) is written once in the Verus expression subset:

    # free text
    vars: a b c
    ints: n m                      (optional)
    fun:  f(x, y)                  (optional uninterpreted real functions)
    def:  sq(x) = x * x            (optional macro-like definitions, expanded in both outputs)
    hyp:  a > 0 && b > 0           (any number)
    concl: a * b > 0               (any number; all must follow)

From it the generator emits (i) SMT-LIB `hyps && !concl` that must be `unsat` in z3 (and `hyps`
alone must be `sat`: vacuity guard), and (ii) a Verus `pub axiom fn` with the same statement
that units import with `@lemma NAME`.  Nobody transcribes anything by hand.
"""
import os
import re
import subprocess
import time

VERIF = os.path.dirname(os.path.dirname(os.path.abspath(__file__)))

TOK = re.compile(r"\s*(==>|<==>|&&|\|\||<=|>=|==|!=|[-+*/()<>!,]|\d+\.\d+|\d+|[A-Za-z_]\w*)")


class LemmaError(Exception):
    pass


def tokenize(s):
    out, pos = [], 0
    s = s.strip()
    while pos < len(s):
        m = TOK.match(s, pos)
        if not m:
            raise LemmaError("bad token at: " + s[pos:pos + 20])
        t = m.group(1)
        pos = m.end()
        out.append(t)
    return out


class P:
    """precedence-climbing parser -> nested tuples"""
    def __init__(self, toks):
        self.t, self.i = toks, 0

    def peek(self):
        return self.t[self.i] if self.i < len(self.t) else None

    def eat(self, x=None):
        t = self.peek()
        if x is not None and t != x:
            raise LemmaError("expected %s got %s" % (x, t))
        self.i += 1
        return t

    def parse(self):
        e = self.imp()
        if self.peek() is not None:
            raise LemmaError("trailing tokens: %s" % self.t[self.i:])
        return e

    def imp(self):
        l = self.orr()
        if self.peek() == "==>":
            self.eat()
            return ("=>", l, self.imp())
        if self.peek() == "<==>":
            self.eat()
            return ("=", l, self.imp())
        return l

    def orr(self):
        l = self.andd()
        while self.peek() == "||":
            self.eat()
            l = ("or", l, self.andd())
        return l

    def andd(self):
        l = self.cmp()
        while self.peek() == "&&":
            self.eat()
            l = ("and", l, self.cmp())
        return l

    def cmp(self):
        l = self.add()
        parts = []
        while self.peek() in ("<", "<=", ">", ">=", "==", "!="):
            op = self.eat()
            r = self.add()
            parts.append((op, l, r))
            l = r
        if not parts:
            return l
        es = [self._cmp1(*p) for p in parts]
        e = es[0]
        for x in es[1:]:
            e = ("and", e, x)
        return e

    @staticmethod
    def _cmp1(op, l, r):
        if op == "==":
            return ("=", l, r)
        if op == "!=":
            return ("not", ("=", l, r))
        return (op, l, r)

    def add(self):
        l = self.mul()
        while self.peek() in ("+", "-"):
            op = self.eat()
            l = (op, l, self.mul())
        return l

    def mul(self):
        l = self.un()
        while self.peek() in ("*", "/"):
            op = self.eat()
            l = (op, l, self.un())
        return l

    def un(self):
        if self.peek() == "-":
            self.eat()
            return ("neg", self.un())
        if self.peek() == "!":
            self.eat()
            return ("not", self.un())
        return self.atom()

    def atom(self):
        t = self.eat()
        if t == "(":
            e = self.imp()
            self.eat(")")
            return e
        if re.match(r"\d", t):
            return ("num", t)
        if re.match(r"[A-Za-z_]", t):
            if self.peek() == "(":
                self.eat()
                args = []
                if self.peek() != ")":
                    args.append(self.imp())
                    while self.peek() == ",":
                        self.eat()
                        args.append(self.imp())
                self.eat(")")
                return ("call", t, args)
            return ("var", t)
        raise LemmaError("unexpected token " + str(t))


def subst(e, env):
    k = e[0]
    if k == "var":
        return env.get(e[1], e)
    if k == "num":
        return e
    if k == "call":
        return ("call", e[1], [subst(a, env) for a in e[2]])
    return (k,) + tuple(subst(a, env) for a in e[1:])


def expand(e, defs):
    k = e[0]
    if k in ("var", "num"):
        return e
    if k == "call":
        args = [expand(a, defs) for a in e[2]]
        if e[1] in defs:
            params, body = defs[e[1]]
            if len(params) != len(args):
                raise LemmaError("arity of " + e[1])
            return expand(subst(body, dict(zip(params, args))), defs)
        return ("call", e[1], args)
    return (k,) + tuple(expand(a, defs) for a in e[1:])


def smt(e, ints):
    k = e[0]
    if k == "var":
        return e[1]
    if k == "num":
        return e[1] if "." in e[1] else e[1] + ".0"
    if k == "call":
        return "(%s %s)" % (e[1], " ".join(smt(a, ints) for a in e[2])) if e[2] else e[1]
    if k == "neg":
        return "(- %s)" % smt(e[1], ints)
    if k == "not":
        return "(not %s)" % smt(e[1], ints)
    return "(%s %s %s)" % (k, smt(e[1], ints), smt(e[2], ints))


def verus(e):
    k = e[0]
    if k == "var":
        return e[1]
    if k == "num":
        return e[1] + "real"
    if k == "call":
        return "%s(%s)" % (e[1], ", ".join(verus(a) for a in e[2]))
    if k == "neg":
        return "(-%s)" % verus(e[1])
    if k == "not":
        return "(!%s)" % verus(e[1])
    op = {"=>": "==>", "and": "&&", "or": "||", "=": "=="}.get(k, k)
    return "(%s %s %s)" % (verus(e[1]), op, verus(e[2]))


def load(name):
    path = os.path.join(VERIF, "lemmas", name + ".lem")
    if not os.path.exists(path):
        raise LemmaError("lemma file missing: " + path)
    L = dict(name=name, vars=[], ints=[], funs=[], defs={}, hyps=[], concls=[], text=[], deftext=[])
    cur = None
    for raw in open(path):
        line = raw.rstrip("\n")
        if not line.strip() or line.lstrip().startswith("#"):
            continue
        m = re.match(r"(vars|ints|fun|def|hyp|concl):\s*(.*)$", line)
        if m:
            cur = [m.group(1), m.group(2)]
            L["text"].append(cur)
        elif cur is not None and line[0] in " \t":
            cur[1] += " " + line.strip()
        else:
            raise LemmaError("%s: cannot parse line: %s" % (name, line))
    for kind, body in L["text"]:
        if kind == "vars":
            L["vars"] += body.split()
        elif kind == "ints":
            L["ints"] += body.split()
        elif kind == "fun":
            m = re.match(r"(\w+)\s*\(([^)]*)\)", body)
            L["funs"].append((m.group(1), len([a for a in m.group(2).split(",") if a.strip()])))
        elif kind == "def":
            m = re.match(r"(\w+)\s*\(([^)]*)\)\s*=\s*(.*)$", body)
            params = [a.strip() for a in m.group(2).split(",") if a.strip()]
            L["defs"][m.group(1)] = (params, P(tokenize(m.group(3))).parse())
        elif kind == "hyp":
            L["hyps"].append(P(tokenize(body)).parse())
        elif kind == "concl":
            L["concls"].append(P(tokenize(body)).parse())
    if not L["concls"]:
        raise LemmaError(name + ": no concl")
    return L


def smtlib(L, negate=True):
    out = ["(set-logic ALL)"] if False else []
    for v in L["vars"]:
        out.append("(declare-const %s Real)" % v)
    for v in L["ints"]:
        out.append("(declare-const %s Int)" % v)
    for f, n in L["funs"]:
        out.append("(declare-fun %s (%s) Real)" % (f, " ".join(["Real"] * n)))
    for h in L["hyps"]:
        out.append("(assert %s)" % smt(expand(h, L["defs"]), L["ints"]))
    if negate:
        cs = [smt(expand(c, L["defs"]), L["ints"]) for c in L["concls"]]
        out.append("(assert (not (and %s true)))" % " ".join(cs))
    out.append("(check-sat)")
    return "\n".join(out) + "\n"


def verus_axiom(L, spec_names=()):
    """Verus text.  Definitions (`def:`) whose name is in spec_names are assumed to exist in the unit
    as spec fns with the same meaning and are NOT expanded; others are expanded."""
    defs = {k: v for k, v in L["defs"].items() if k not in spec_names}
    params = ", ".join(["%s: real" % v for v in L["vars"]] + ["%s: int" % v for v in L["ints"]])
    req = ",\n        ".join(verus(expand(h, defs)) for h in L["hyps"])
    ens = ",\n        ".join(verus(expand(c, defs)) for c in L["concls"])
    s = "/// lemma %s — discharged by bare z3 (obligation Z:%s), imported here as an axiom\n" % (L["name"], L["name"])
    s += "pub axiom fn L_%s(%s)\n" % (L["name"].replace("-", "_").replace(".", "_"), params)
    if req:
        s += "    requires\n        %s,\n" % req
    s += "    ensures\n        %s,\n;" % ens
    return s


def _z3(path, solver, timeout):
    t0 = time.time()
    try:
        if solver == "cvc5":
            cmd = ["cvc5", "--tlimit=%d" % (timeout * 1000), path]
        else:
            cmd = [solver, "-T:%d" % timeout, path]
        p = subprocess.run(cmd, capture_output=True, text=True, timeout=timeout + 10)
        out = (p.stdout + p.stderr).strip().split("\n")[0].strip()
    except subprocess.TimeoutExpired:
        out = "timeout"
    except FileNotFoundError:
        out = "missing"
    return out, time.time() - t0, " ".join(cmd)


def run(name, work, tier="quick", timeout=60):
    res = dict(name=name, status="undecided", seconds=0.0, tool_errors=[], cmd="", statement="")
    try:
        L = load(name)
    except (LemmaError, Exception) as e:
        res["tool_errors"].append("lemma %s: %s" % (name, e))
        return res
    res["statement"] = " ; ".join("%s: %s" % (k, b) for k, b in L["text"] if k in ("hyp", "concl"))
    neg = os.path.join(work, name + ".neg.smt2")
    hyp = os.path.join(work, name + ".hyp.smt2")
    open(neg, "w").write(smtlib(L, True))
    open(hyp, "w").write(smtlib(L, False))
    out, dt, cmd = _z3(neg, "z3", timeout)
    res["seconds"] += dt
    res["cmd"] = cmd.replace(work, "<work>")
    if out == "unsat":
        res["status"] = "proved"
    elif out == "sat":
        res["status"] = "refuted"
        p = subprocess.run(["z3", "-T:20", "-model", neg], capture_output=True, text=True)
        res["model"] = p.stdout[:3000]
    else:
        # try the other installed solvers before giving up (tool limit, not an alarm)
        for s in ("z3-new", "cvc5"):
            out2, dt2, cmd2 = _z3(neg, s, timeout)
            res["seconds"] += dt2
            if out2 == "unsat":
                res["status"] = "proved"
                res["cmd"] = cmd2.replace(work, "<work>")
                break
        if res["status"] != "proved":
            res["tool_errors"].append("lemma %s: z3 says '%s' (no verdict)" % (name, out))
    # vacuity: the hypotheses alone are satisfiable
    if L["hyps"]:
        outh, dth, _ = _z3(hyp, "z3", timeout)
        res["seconds"] += dth
        if outh == "unsat":
            res["tool_errors"].append("lemma %s: hypotheses are contradictory (vacuous)" % name)
        elif outh != "sat":
            outh2, _, _ = _z3(hyp, "z3-new", timeout)
            if outh2 == "unsat":
                res["tool_errors"].append("lemma %s: hypotheses are contradictory (vacuous)" % name)
    if tier == "thorough" and res["status"] == "proved":
        for s in ("z3-new", "cvc5"):
            o, dt, _ = _z3(neg, s, timeout)
            res["seconds"] += dt
            res.setdefault("cross", {})[s] = o
            if o == "sat":
                res["status"] = "refuted"
                res["model"] = "solver %s disagrees: sat" % s
    return res
