"""Witness search (DESIGN 3.8): upgrade a Verus failure (no model) to a concrete failing input by running a native
oracle test against the real code.  Only ever adds information to a report."""
import fcntl
import os
import re
import shutil
import subprocess
import tempfile

VERIF = os.path.dirname(os.path.dirname(os.path.abspath(__file__)))
CACHE = os.path.join(VERIF, ".cache")

# obligation id (prefix) -> test in replay/witness.rs
MAP = [
    ("V:pairs:intersects:line.intersects", "line_intersects"),
    ("V:pairs:intersects:atom.", "atom_intersects"),
    ("V:pairs:area", "shape_areas"),
    ("V:pairs:overlap_area:", "shape_areas"),
    ("V:pairs:circle_overlap:", "shape_areas"),
    ("V:pairs:energy:lj.energy", "lj_energy"),
    ("V:geom:periodic:periodic.", "transform_periodic"),
    ("V:geom:to_cartesian:", "cell_geometry"),
    ("V:geom:area:", "cell_geometry"),
    ("V:state:area:", "cell_geometry"),
    ("V:geom:periodic_shells:", "cell_geometry"),
    ("V:state:periodic_shells:", "cell_geometry"),
    ("V:geom:periodic_images:", "periodic_images_enum"),
    ("V:geom:to_cartesian_translate:", "periodic_images_enum"),
    ("V:state:check_intersection:", "packed_overlap"),
    ("V:state:score:score.", "packed_overlap"),
    ("V:state:score:ps", "lattice_energy"),
    ("V:pairs:energy:lj.shape", "lattice_energy"),
    ("V:opt:set_value:", "basis_set_reset"),
    ("V:opt:reset_value:", "basis_set_reset"),
    ("V:opt:set_sampled:", "basis_set_sampled"),
    ("V:opt:sample:", "basis_set_sampled"),
    ("V:opt:optimise_state:", "optimiser_contract"),
    ("V:opt:accept_score", "optimiser_contract"),
    ("V:opt:test_acceptance:", "optimiser_contract"),
    ("V:opt:energy_surface:", "optimiser_contract"),
    ("V:opt:build:", "optimiser_contract"),
    ("P:serde-plain:", "serde_roundtrip"),
    ("V:cli:", "cli_pipeline"),
    ("V:state:as_svg_uses:", "svg_places"),
    ("V:geom:as_svg_matrix_args:", "svg_places"),
    ("V:geom:fo_char:", "parse_grammar"),
    ("V:geom:from_operations:", "parse_grammar"),
    ("V:geom:lemma_row:", "parse_grammar"),
    ("V:geom:lemma_component:", "parse_grammar"),
]


def test_for(obligation):
    for pre, t in MAP:
        if obligation.startswith(pre):
            return t
    return None


def search(repo, tests, seed=0, timeout=900):
    """Run the named oracle tests natively on a scratch copy of `repo`.  Returns {test: witness_line or None}."""
    out = {t: None for t in tests}
    if not tests:
        return out
    os.makedirs(CACHE, exist_ok=True)
    scratch = tempfile.mkdtemp(prefix="vx-witness-")
    try:
        src = os.path.join(scratch, "repo")
        subprocess.check_call(["rsync", "-a", "--no-times", "--exclude", "target", "--exclude", ".git", repo.rstrip("/") + "/", src + "/"])
        shutil.copy(os.path.join(VERIF, "replay", "witness.rs"), os.path.join(src, "tests", "vx_witness.rs"))
        env = dict(os.environ, CARGO_NET_OFFLINE="true", CARGO_TARGET_DIR=os.path.join(CACHE, "native-target"), VERIF_SEED=str(seed))
        # the cached target dir holds one test binary per relative path: build and run under a lock, so that a concurrent
        # check of another tree (self-test with VERIF_REPO) cannot swap the binary between build and run
        with open(os.path.join(CACHE, "native-target.lock"), "w") as lk:
            fcntl.flock(lk, fcntl.LOCK_EX)
            for t in tests:
                try:
                    p = subprocess.run(["cargo", "test", "--offline", "--release", "--test", "vx_witness", t, "--", "--exact", "--nocapture"],
                                       cwd=src, env=env, capture_output=True, text=True, timeout=timeout)
                except subprocess.TimeoutExpired:
                    continue
                m = re.search(r"WITNESS [^\n]*", p.stdout + p.stderr)
                if m and re.search(r"test %s \.\.\. FAILED" % re.escape(t), p.stdout + p.stderr):
                    out[t] = m.group(0)
    except Exception:
        pass
    finally:
        shutil.rmtree(scratch, ignore_errors=True)
    return out


ALL_TESTS = sorted(set(t for _, t in MAP))


def cross_check(repo, seed=0):
    """Thorough tier: run every oracle on the tree as it is.  The oracles are written from the property statements,
    independently of the Verus contracts; a failing oracle on a tree where all obligations are discharged means the
    contract text and the oracle disagree about the real code (reported as exit 2, never as an alarm)."""
    found = search(repo, ALL_TESTS, seed)
    return {t: w for t, w in found.items() if w}
