"""Property -> obligations registry (DESIGN 3.7).  V obligations are the clauses tagged with the
property id inside the listed units; K and Z obligations are listed here by name."""

COMMON_ASSUMPTIONS = [
    "Verus 0.2026.09.13 / Z3, Kani 0.68 / CBMC 6.11 and bare z3 4.8.12 are sound",
    "the extractor's rewrite rules (DESIGN 3.2, counted per run in coverage.extraction_rules_applied) mean what DESIGN says; the verified text is /repo's text after those rules",
    "Theory M: in Verus units f64 arithmetic, comparisons and literals are those of the reals (no rounding, NaN, infinities); x/0 is an unspecified real",
]

KANI = {
    "k_basis_set_reset": dict(props=["C06", "C08"], kind="complete", fn="basis.rs StandardBasis::{new,set_value,reset_value,get_value}, SharedValue::{new,get_value,set_value}",
                              what="all 2^64 bit patterns of value, proposal and bounds (min<=max): restore point = bits before; stored value = clamp; numeric proposals land in [min,max]; no other cell written; reset restores the bits"),
    "k_basis_two_handles": dict(props=["C06"], kind="complete", fn="basis.rs StandardBasis::{set_value,reset_value}",
                                what="two handles on distinct cells never interfere (justifies aliasing model R8)"),
    "k_opt_accept_zero": dict(props=["C05", "C07"], kind="complete", fn="optimisation.rs MCOptimiser::{accept_score,test_acceptance,energy_surface}",
                              what="kT=+0.0, all non-NaN scores, all generator outputs: accepted iff the proposal has a score >= old; exp replaced by its C99 special-value model"),
    "k_opt_accept_any_kt": dict(props=["C07", "C08", "C05"], kind="complete", fn="optimisation.rs MCOptimiser::accept_score",
                                what="every kT bit pattern: None never accepted; a NaN score never accepted; accepted value is the proposed one; strictly better always accepted"),
    "k_opt_draw_range": dict(props=["C07"], kind="complete", fn="rand 0.7 Standard f64 sampling via Rng::gen",
                             what="the uniform draw lies in [0,1) for every 64-bit generator output (checks the rand shim's range claim on the real crate)"),
}

_OPT_ASSUMPTIONS = [
    "aliasing model R8/R9: a StandardBasis is the only writer of its cell and State::score() depends on the parameter cells only (backed by K:k_basis_set_reset / k_basis_two_handles on the real pointers)",
    "rand shim: gen::<f64>() in [0,1), gen_range(lo,hi) in [lo,hi), Uniform::new(0,n).sample < n (range claim checked by K:k_opt_draw_range); uniformity of the draws is assumed",
    "bridge contract accept_score_w = conjunction of V-proved clauses (kT>0) and Kani-proved clauses (kT=+0.0, undefined score); the conjunction itself is trusted text",
    "a starting temperature of -0.0 is excluded (pos_zero precondition); NaN scores are outside every precondition",
    "exp_r is uninterpreted with axioms exp>0, exp(x)>=1 for x>=0, exp(x)<1 for x<0; pow_r with the root axiom ax_root_pow",
]

PROPS = {
    "C05": dict(
        level="proof", units=["opt"], kani=["k_opt_accept_zero", "k_opt_accept_any_kt"], lemmas=[],
        explanation="Deductive proof (Verus) that the real optimise_state loop keeps kT bitwise equal to kt_start when kt_start is zero "
                    "(inv.zero), that every accepted score is >= the previous one (accept.monotone) and that the returned state's score is >= the "
                    "input's (exit*.hillclimb), for all steps/inner_steps/ratios/convergence settings and all accept/reject histories; the zero-temperature "
                    "acceptance rule itself is proved bit-precisely by Kani on the real accept_score for every pair of scores and every generator output.",
        assumptions=_OPT_ASSUMPTIONS,
        undecided=["the three-stage CLI pipeline in main.rs (rayon/structopt) is not under contract"],
    ),
    "C06": dict(
        level="proof", units=["opt"], kani=["k_basis_set_reset", "k_basis_two_handles"], lemmas=[],
        explanation="Kani proves on the real UnsafeCell pointers, for all bit patterns, that set_value saves the previous bits, stores the clamped proposal, "
                    "writes no other cell, and reset_value restores the saved bits.  Verus proves the loop invariant inv.held for every history: after each "
                    "step the parameter vector is the proposal (accepted) or bit-identical to the one before (reject.bitwise), at most one parameter differs "
                    "(step.one), and the score held in score_current is the score of the held parameters at every exit.",
        assumptions=_OPT_ASSUMPTIONS,
    ),
    "C07": dict(
        level="proof", units=["opt"], kani=["k_opt_accept_zero", "k_opt_accept_any_kt", "k_opt_draw_range"], lemmas=[],
        explanation="Verus proves the bodies of energy_surface/test_acceptance/accept_score equal the Metropolis rule written from the property statement "
                    "(metropolis(u,new,old,kT)) for every kT>0, with u the single uniform draw; Kani proves the kT=+0 and undefined-score clauses on the real code. "
                    "The probabilistic clause follows from u uniform in [0,1) (assumed of rand).",
        assumptions=_OPT_ASSUMPTIONS,
    ),
    "C18": dict(
        level="proof", units=["opt"], kani=[], lemmas=[],
        explanation="Verus proves inv.schedule (kT at outer loop i equals kt_start * factor^(i-1)), inv2.ktconst (kT is not assigned inside an inner loop), "
                    "inv.zero (zero stays zero) on the real loop for all iteration counts, and build()'s choice of factor: 1-ratio, or the factor whose "
                    "L-th power is kt_finish/kt_start with L the number of cooling steps.",
        assumptions=_OPT_ASSUMPTIONS,
        undecided=["when neither ratio nor finish is given the property prescribes nothing and the contract is silent"],
    ),
    "C19": dict(
        level="proof", units=["opt"], kani=[], lemmas=[],
        explanation="Verus proves on the real sample/set_sampled/optimise_state: a proposal changes exactly the chosen parameter (step.one), the proposed value is "
                    "clamp(cur + step*range*u) with u in [-1/2,1/2) (step.sampled), step = max_step_size*step_ratio with 0<=step_ratio<=1 at every loop (inv.step), "
                    "hence |delta| <= max_step_size*range/2 (step.bound), for all rejection histories and loop counts.",
        assumptions=_OPT_ASSUMPTIONS,
    ),
    "C20": dict(
        level="proof", units=["opt"], kani=[], lemmas=[],
        explanation="Verus proves total correctness of the real optimise_state: both loops terminate, no division by zero, no index out of range, the input panic and "
                    "the final assert are unreachable under the documented precondition (valid state with a score); the ghost evaluation counter equals loops*inner_steps, "
                    "is <= steps and > steps-inner_steps at normal exit; early exit only when the property's own run counter exceeds 5 (inv.conv, exit.conv). "
                    "build() establishes 1 <= inner_steps for every configuration.",
        assumptions=_OPT_ASSUMPTIONS,
        undecided=["CLI exit paths in main.rs are not under contract", "the prefix statement (run with threshold = prefix of run without) is a two-run hyperproperty; it is argued from the frame of the convergence block, not proved"],
    ),
}

# premises of assumed contracts on dependencies (vx/premise.py): checked on the extracted text every run, never counted as proved
_SERDE_STRUCTS = [
    ("src/state/packed.rs", "PackedState"), ("src/state/potential.rs", "PotentialState"), ("src/cell.rs", "CrystalFamily"),
    ("src/cell.rs", "Cell2"), ("src/site.rs", "OccupiedSite"), ("src/wallpaper.rs", "Wallpaper"), ("src/wallpaper.rs", "WyckoffSite"),
    ("src/transform.rs", "Transform2"), ("src/shape/line_shape.rs", "LineShape"), ("src/shape/lj_shape.rs", "LJShape2"),
    ("src/shape/molecular_shape2.rs", "MolecularShape2"), ("src/shape/components/atom2.rs", "Atom2"),
    ("src/shape/components/line2.rs", "Line2"), ("src/shape/components/lj2.rs", "LJ2"),
]
PREMISES = {}
for _f, _s in _SERDE_STRUCTS:
    PREMISES["serde-plain:%s" % _s] = dict(kind="serde-plain", file=_f, struct=_s, props=["C11"], oracle="serde_roundtrip")


NOT_APPLICABLE = {
    "C09": "quantifies over thread schedules and interleavings of the rayon pipeline; Kani has no thread support and Verus would need the code rewritten onto its permission types, so no contract within reach can express or decide schedule independence or the soundness of `unsafe impl Sync for SharedValue` (the sequential ingredients — clone isolation, seed plumbing, optimiser frame — are proved under C10/C06)",
}

# ---------------------------------------------------------------- tables (C16, C10, C04, C17)
_GROUPS = dict(p1=1, p2=2, p1m1=2, p1g1=2, p2mm=4, p2mg=4, p2gg=4)
for _g, _n in _GROUPS.items():
    for _k in range(_n):
        KANI["k_tables_%s_%d" % (_g, _k)] = dict(
            props=["C16", "C04", "C17"], kind="complete", covers="some", group=_g, index=_k,
            fn="wallpaper.rs get_wallpaper_group + transform.rs Transform2::from_operations (real parser, concrete string)",
            what="string %d of group %s parses to a general position of the ITA table of that group (modulo lattice translations); which entry is reported through a named cover" % (_k, _g))
    KANI["k_tables_label_%s" % _g] = dict(
        props=["C10", "C16", "C04", "C08"], kind="complete", fn="wallpaper.rs get_wallpaper_group, Wallpaper::new",
        what="group %s: name equals the requested group's own name, crystal family and order as tabulated in ITA" % _g)


def tables_bijection(kres):
    """C16: the map string index -> ITA entry must be a bijection for every group (the property speaks
    of the *set* of operations, so a reordered table is a neutral change).  Fast path: every string
    sits at its ITA position (2 of 5 covers: position + entry).  Slow path (table reordered): the
    harnesses concerned are re-run one by one in Kani's regular output format to read which entry matched."""
    from . import kani as K
    import os
    out = []
    for g, n in _GROUPS.items():
        entry = {}
        redo = []
        for k in range(n):
            r = kres.harness.get("k_tables_%s_%d" % (g, k))
            if not r or r["status"] != "SUCCESS":
                continue
            if r["covers"][0] == 2:
                entry[k] = "entry%d" % k
            else:
                redo.append(k)
        if redo:
            r2 = K.run(os.environ.get("VERIF_REPO", "/repo"), ["k_tables_%s_%d" % (g, k) for k in redo], jobs=1, fmt="regular", named_covers=True)
            for k in redo:
                rr = r2.harness.get("k_tables_%s_%d" % (g, k))
                es = [c for c in (rr or {}).get("sat_covers", []) if c.startswith("entry")]
                if len(es) == 1:
                    entry[k] = es[0]
        seen = {}
        for k, e in entry.items():
            seen.setdefault(e, []).append(k)
        dup = {e: ks for e, ks in seen.items() if len(ks) > 1}
        if dup:
            out.append(dict(obligation="K:tables_bijection_%s" % g, props=["C16", "C04"], kind="post",
                            message="group %s: strings %r denote the same ITA operation — an operation of the group is missing" % (g, dup),
                            src="wallpaper.rs get_wallpaper_group", text=str(seen), rendered=str(seen)))
    return out


POST = {"C16": tables_bijection, "C04": tables_bijection}
for _g in _GROUPS:
    KANI["k_tables_axioms_%s" % _g] = dict(
        props=["C16", "C08"], kind="complete", fn="ITA oracle table for %s (harness constants)" % _g,
        what="the oracle table of %s contains the identity, is closed under composition and inverses modulo lattice translations, has no repeated entry, every linear part has determinant +-1, and has the group's mirror/glide/two-fold content; and (C08) at the initial site position p = -1/2 + 1/(2N) all copies and their lattice images are more than 1/(2N) apart in fractional units" % _g)
POST_COUNT = {"C16": len(_GROUPS), "C04": len(_GROUPS)}

PROPS["C16"] = dict(
    level="proof", units=[], lemmas=[],
    kani=["k_tables_%s_%d" % (g, k) for g, n in _GROUPS.items() for k in range(n)] + ["k_tables_label_%s" % g for g in _GROUPS] + ["k_tables_axioms_%s" % g for g in _GROUPS],
    explanation="Finite domain, decided completely: for each of the 19 table strings a Kani harness runs the crate's real parser on the real table entry and proves the result "
                "equals, modulo whole lattice translations, an entry of an independent table typed from International Tables A; the driver checks that string -> entry is a bijection per group "
                "(so the listed operations are exactly the general positions, in any order); label harnesses prove order and crystal family; axiom harnesses prove the ITA table itself contains "
                "the identity, is closed under composition and inverse modulo the lattice, and has the stated mirror/glide/two-fold content.",
    assumptions=["the ITA oracle table in /verif/kani/wallpaper.rs is typed correctly from International Tables A (its group axioms are machine-checked, its identity with the printed tables is not)",
                 "CBMC unwinding assertions are on: the string loops are fully unwound (complete, not bounded)"],
    technique="Kani/CBMC complete enumeration of a finite domain on the real parser and tables, against an independent ITA oracle",
)

# ---------------------------------------------------------------- geometry (C12, C13, C14, C15, C02, C04)
KANI.update({
    "k_wrap_range": dict(props=["C15", "C01"], kind="bounded", bound="|x|,|y| <= 8 (all doubles in that range; site coordinates and table constants stay within 2)",
                         fn="transform.rs Transform2::{periodic,position,set_position}",
                         what="bit-precise: periodic(1,-0.5) of any translation with |x|,|y|<=8 lies in [-0.5,0.5) in floats too; linear part and bottom row keep their bits"),
    "k_shim_transform": dict(props=["C15", "C14", "C12"], kind="bounded", bound="entries in {-1,-1/2,0,1/2,1} (sanity check of the nalgebra shim, not a proof of nalgebra)",
                             fn="nalgebra 0.22 Transform2*Point2, Transform2*Transform2 through transform.rs", thorough_only=True,
                             what="the real nalgebra product and point map agree with the shim's matrix algebra on a grid of dyadic entries, bottom row (0,0,w), w in {0,1}"),
    "k_cell_dof": dict(props=["C08", "C04"], kind="complete", fn="cell.rs Cell2::get_degrees_of_freedom + basis.rs",
                       what="every family, every bit pattern of length/ratio/angle: number of handles, their bounds ([0.01,len], [0.1,ratio], [pi/6,pi/2]), which cell each writes, parameters without a handle keep their bits, written values stay in range"),
    "k_cell_from_family": dict(props=["C08", "C04"], kind="complete", fn="cell.rs Cell2::from_family",
                               what="initial ratio 1, angle pi/3 for Hexagonal and pi/2 otherwise, length as given, family recorded"),
    "k_clone_cell": dict(props=["C10", "C04", "C08"], kind="complete", fn="cell.rs impl Clone for Cell2", what="a clone holds equal bits in fresh cells: arbitrary writes through the clone leave the original bit-identical"),
    "k_clone_site": dict(props=["C10", "C04", "C08"], kind="complete", fn="site.rs impl Clone for OccupiedSite", what="a cloned site holds equal bits in fresh cells and the same multiplicity"),
    "k_site_basis": dict(props=["C08"], kind="complete", fn="site.rs OccupiedSite::get_basis", what="handles x,y in [-1/2,1/2], orientation in [0, 2pi/rot]; each writes only its own cell; written values stay in range"),
})

_GEOM_ASSUMPTIONS = [
    "nalgebra shim (prelude/nalgebra_shim.rs): Point2/Vector2/Translation2/Rotation2/Matrix3/Transform2 specified as 3x3 real matrix algebra incl. the homogeneous divide of Transform<TGeneral>*Point; sanity-checked on the real crate by K:k_shim_transform (thorough tier), not proved",
    "uninterpreted sin_r/cos_r/sqrt_r/acos_r/pi_r/fmod_r with the axioms listed in coverage.trusted_base (sin^2+cos^2=1, cos(pi/2)=0, fmod = C fmod)",
    "rule R16: iterator chains of the anchored functions are desugared mechanically into eager index loops (same elements, same order) before verification — i.e. the semantics of core::iter / itertools map, filter, flat_map, enumerate, skip, tuple_combinations, iproduct!, any, sum, fold, collect is ASSUMED, laziness dropped; chains not desugared (still outside any contract): enclosing_radius folds (only their closure bodies are proved), get_corners, the shapes' transform() map/collect, LineShape::from_radial zip/cycle/skip, WyckoffSite::new map/collect, initialise() fold/map/collect, to_svg loops",
    "values returned by iterator-returning helpers are named by uninterpreted sequences (cart_seq, rel_seq, pos_seq, images_seq): exec code is deterministic, so the postconditions proved of the desugared bodies hold of those values",
    "SharedValue is read through a value shim in these units; writes are proved on the real pointers by Kani (K:k_basis_*)",
]

PROPS["C12"] = dict(
    level="other", units=["pairs"], kani=[], lemmas=["seg-witness", "seg-unique", "seg-symmetric", "seg-affine", "disc-symmetric", "disc-meaning", "disc-open"],
    explanation="Component level, unbounded: Verus proves the real Line2::intersects equals the closed-segment crossing predicate written from the definition (alg_crosses), the real Atom2::intersects "
                "answers yes when |p-q|^2 < (r1+r2)^2 and no when > (silent at exact tangency, which the property's tolerance allows), and that Mul<Transform2> maps endpoints/centres by the transform and keeps radii. "
                "z3 lemmas show alg_crosses is 'non-parallel closed segments share a point' (witness + uniqueness), is symmetric under swapping the arguments and invariant under a common invertible affine map; "
                "the disc predicate is symmetric, isometry-invariant and means open discs meet / closed discs disjoint. Shape level (any pair of components) is iterator plumbing, listed as assumed.",
    assumptions=_GEOM_ASSUMPTIONS,
    undecided=["the geometric theorem 'two convex polygons' interiors intersect iff two non-parallel closed edges meet (up to touching)' is about polygons, not code: not proved",
               "rounding at exactly aligned configurations (Theory M reads floats as reals)",
               "a restructured iterator chain (other adapters, nested closures) is outside the R16 catalogue: such a change makes the check undecided (exit 2), not alarmed"],
)
PROPS["C13"] = dict(
    level="other", units=["pairs"], kani=[], lemmas=["lj-r2", "lj-min", "lj-cut", "lj-symmetric-like", "lj-symmetric"],
    explanation="Verus proves the real LJ2::energy equals the shifted, truncated 12-6 law written from the property (lj_energy: 4 eps (s^6 - s^3) with s = sigma^2/r^2, minus the same at the cutoff when r^2 < cutoff^2, exactly 0 beyond), "
                "depends on the positions only through |p-q|^2, and that Mul<Transform2> keeps sigma/epsilon/cutoff and maps the position. z3 lemmas: (sigma/r)^6 = (sigma^2/r^2)^3; minimum -eps exactly at (sigma/r)^6 = 1/2; "
                "the shifted form vanishes at the cutoff; symmetric for like particles. The real LJShape2::energy (iproduct!.map.sum desugared by R16) is the sum over all particle pairs. The unconditional symmetry clause is refuted (known finding D9: the body uses self's sigma/epsilon only).",
    assumptions=_GEOM_ASSUMPTIONS,
    undecided=["LJShape2::from_trimer's map closure (sigma = 2 radius, cutoff 3.5) is not under contract"],
)
PROPS["C14"] = dict(
    level="other", units=["geom"], kani=["k_shim_transform"], lemmas=["lattice-area"],
    explanation="Unbounded (Verus, all cell parameters): the real to_cartesian/to_cartesian_point/center map (x,y) to x*A + y*B with A=(a,0), B=(b cos t, b sin t); to_cartesian_isometry and "
                "to_cartesian_translate keep the linear part and map the translation to C(t) resp. C(t) + n*A + m*B; get_corners (R16) returns the Cartesian images of (+-1/2, +-1/2); area = A x B (z3: equals a b sin t >= 0). "
                "The real periodic_images (iproduct!.filter.map desugared by R16) is proved sound and complete for every shell count: each element is the placement translated by some n*A+m*B with |n|,|m| <= k (the untranslated one only when asked), orientation unchanged, and every such offset occurs; the number of images is (2k+1)^2, minus one when the untranslated one is excluded (images.count); the image of offset (n, m) sits at the explicit row-major position img_count(n, m) of the sequence (images.at) and that position map is injective on the offsets of the shell (images.injective, a counted lemma obligation) — 'each once'.",
    assumptions=_GEOM_ASSUMPTIONS,
    undecided=["two different offsets could in principle give the same TRANSFORM (they do not when the lattice vectors are independent, i.e. a, b > 0 and sin t != 0); 'each once' is decided per offset, which is what the property counts"],
)
PROPS["C15"] = dict(
    level="other", units=["geom"], kani=["k_wrap_range", "k_shim_transform"], lemmas=[],
    explanation="Unbounded (Verus): the real Transform2::periodic wraps the translation into [offset, offset+period), changes it by whole periods only and leaves the linear part untouched (lemma_wrap over C fmod); "
                "the real Transform2*Transform2 is the matrix product; the two closure bodies of OccupiedSite::positions (sym*transform, then periodic(1,-0.5)) compose to the property's placement_ok(g_k, site, r) "
                "(lemma_placement); multiplicity = number of operations. Kani adds the float-level range claim for |x| <= 8 (bounded).",
    assumptions=_GEOM_ASSUMPTIONS,
    undecided=["the 2*pi periodicity clause for orientations rests on periodicity of sin/cos (axiom), not on code"],
)
PROPS["C02"] = dict(
    level="other", units=["pairs", "geom"], kani=[], lemmas=["lattice-area"],
    explanation="Verus proves the arithmetic the score is built from: Cell2::area = A x B = a b sin t; Atom2::area = pi r^2; MolecularShape2::overlap_area = circular-segment formula; circle_overlap = lens of two discs "
                "(two segments at the radical line) when they overlap, 0 otherwise; from_trimer / circle build the discs at the stated coordinates. The score expression itself (PackedState::score) and the iterator folds "
                "in area()/total_shapes() are not under contract in this unit yet.",
    assumptions=_GEOM_ASSUMPTIONS,
    undecided=["'score <= 1' needs the measure-theoretic fact that N non-overlapping copies of area A fit in a cell of area |AxB| only if N*A <= |AxB|: not code, not proved",
               "pairwise inclusion-exclusion in MolecularShape2::area is the union area only without triple overlaps / contained discs (known finding D2)",
               "that sum-of-edge-triangles is the polygon's area (needs convexity / star-shapedness about the origin: geometry, not code)"],
)
PROPS["C04"] = dict(
    level="other", units=["geom"], lemmas=["sym-commute"],
    kani=["k_tables_%s_%d" % (g, k) for g, n in _GROUPS.items() for k in range(n)] + ["k_tables_label_%s" % g for g in _GROUPS] + ["k_cell_dof", "k_cell_from_family", "k_clone_cell", "k_clone_site"],
    explanation="Deductive chain: (1) placement k = wrap(g_k * T(site)) with linear part g_k * Rot (Verus, C15 clauses); (2) to_cartesian_isometry keeps the linear part and maps the translation by the cell matrix C (Verus); "
                "(3) the tables are the ITA general positions with the ITA crystal family (Kani, complete); (4) the cell angle is a free parameter only for Monoclinic cells and non-hexagonal cells start at pi/2 (Kani, complete, all bit patterns) "
                "so cos t = 0 is invariant for the mirror/glide groups; (5) z3: diag(+-1,+-1) commutes with C when it is +-I or cos t = 0, hence the Cartesian operation (M, C t_g) is an isometry mapping placement k onto placement k' "
                "with g g_k = g_k' mod lattice (closure proved on the tables under C16). (6) COMPOSITION (c04.symmetry, a counted lemma obligation in unit geom, with steps lemma_c04_frac / _cart / _lin): from (1)-(5) as hypotheses, stated with the units' own predicates "
                "(placement_ok, is_cart, closure of the table `composes`, diag(+-1,+-1) operations, 'different signs only with cos t = 0'), Verus derives that each operation in Cartesian space has the orthogonal linear part diag(+-1,+-1) commuting with the cell matrix "
                "and maps the placed copy k onto the placed copy k' — same orientation and handedness — up to a lattice translation n*A + m*B.",
    assumptions=_GEOM_ASSUMPTIONS + ["in floats cos(PI/2) is 6e-17, not 0: the residual shear of a 'rectangular' cell is a rounding effect outside Theory M"],
    undecided=["the composition lemma takes the steps as hypotheses; that they are discharged for the state at hand by positions.each (1), isometry.cart (2), the Kani table harnesses (3), k_cell_dof / from_family / the optimiser frame (4) is a hand-over between units and back ends, not a machine-checked step",
               "'preserved by optimisation' rests on C06/C08: the optimiser only moves parameters inside their handles' ranges and the angle has a handle only for Monoclinic cells",
               "the lemma is about one operation and one placement; 'the set of placed shapes is mapped onto itself' follows by quantifying over the table (closure gives a k' for every (a, k), and the map k -> k' is injective because operations are invertible in the table): that last step is by inspection"],
)

# ---------------------------------------------------------------- state level (C01, C03, C08, C10) and C02 update
_STATE_ASSUMPTIONS = _GEOM_ASSUMPTIONS + [
    "contract on Shape implementors (trait shim ShapeT/PotT): area(), enclosing_radius(), energy() are functions of the shape only; every component of a shape lies within enclosing_radius of its origin (the fold(MIN, max) plumbing of enclosing_radius is assumed)",
    "contract on Shape implementors also includes intersects() == overlaps-relation and transform() == moved(): for the real shapes these are proved in unit pairs (component level and shape level) except transform()'s map/collect",
]
PROPS["C02"]["units"] = ["pairs", "geom", "state"]
PROPS["C02"]["lemmas"] = ["lattice-area", "radial-norm", "trimer-area-pre"]
PROPS["C02"]["explanation"] = (
    "Verus proves on the real PackedState::score that the reported value is None when the overlap test fires and otherwise exactly shape.area() * copies / cell.area(); "
    "Cell2::area = A x B = a b sin t (z3: non-negative for the angle range); Atom2::area = pi r^2; MolecularShape2::overlap_area = circular-segment formula; circle_overlap = lens of two discs; "
    "from_trimer / circle build the discs at the stated coordinates. The number of copies (fold over sites) and the shape-level area sums are iterator plumbing, assumed.")
PROPS["C01"] = dict(
    level="other", units=["state", "geom", "pairs"], kani=["k_wrap_range"],
    lemmas=["shell-x", "shell-y", "shell-wrap", "disc-meaning", "seg-witness", "seg-unique"],
    explanation="Unbounded (Verus) on the real code: (1) score() is Some iff check_intersection() is false; (2) the WHOLE real check_intersection (iterator loops desugared by rule R16) returns true iff "
                "some pair i<j inside the cell overlaps or some copy i overlaps one of the images — within k shells, the untranslated one excluded — of some copy j whose centre is within 2R (ci.post, all copy counts, all shell counts); "
                "(3) k = Cell2::periodic_shells(2R) satisfies k*a*sin t >= 2R and k*b*sin t >= 2R (this replaced an aspect-ratio heuristic: defect D1, fixed); periodic_images yields exactly the translates n*A+m*B, |n|,|m| <= k (sound + complete); "
                "positions() yields wrap(g_k*T) inside [-1/2,1/2)^2; (4) z3: an image more than k cells away then has centre distance > 2R, and shapes within R of their centres cannot overlap at that distance; "
                "(5) the shape-level and component-level pair predicates are the exact crossing / disc tests (C12); (6) COMPOSITION (c01.anywhere, a counted lemma obligation in unit state): from !overlapping() — no in-cell pair, no searched image within 2R overlapping — Verus derives that no copy overlaps any other copy in the cell, any image within the k searched shells, or ANY translate n*A+m*B beyond them, using the shell-count clause, Z:shell-x / Z:shell-y (imported as axioms), shell-wrap (proved in place) and the shape contract far_apart.",
    assumptions=_STATE_ASSUMPTIONS,
    undecided=["polygon-level geometry ('interiors intersect iff two non-parallel closed edges meet') and rounding at exactly aligned configurations (see C12)",
                   "ShapeT::far_apart — 'copies whose centres are more than 2R apart do not overlap' — is a contract on the shape implementors: for the real shapes it rests on the enclosing-radius clauses of unit pairs and Z:disc-meaning; their combination per shape is not a machine-checked step",
                   "the composition lemma c01.anywhere takes clauses of unit geom as hypotheses (positions.in_cell, isometry.cart, images.*): both units state them with the same predicates of prelude/lattice_spec.rs (in_cell, is_cart, is_image — single source), but that the hypothesis of the lemma is discharged by those clauses for the state at hand is a hand-over between units, not a machine-checked step",
                   "reachability along optimisation histories is C06/C20 (the optimiser only keeps scored states)"],
)
PROPS["C03"] = dict(
    level="other", units=["state", "pairs", "geom"], kani=[], lemmas=["lj-symmetric-like", "lj-symmetric", "lj-shells"],
    explanation="Unbounded (Verus) on the real code: the WHOLE real PotentialState::score (iterator loops desugared by rule R16) equals -(sum over unordered in-cell pairs E(i,j) + 1/2 * sum over i, j and the 3-shell images t of j of E(i, image)) / copies "
                "— the property's lattice energy per molecule with every physical pair counted once (the halving was missing: defect D3a, fixed: the same p2 crystal scored -42.06 or -20.14). "
                "LJShape2::energy is the sum over particle pairs; LJ2::energy the shifted truncated 12-6 law of |p-q|^2 (C13); periodic_images yields exactly the translates; positions are wrapped into one cell. "
                "Representation independence additionally needs E(a,b) = E(b,a): refuted for unlike particles (known finding D9). 'Every pair within the cutoff' additionally needs 3 shells to reach the cutoff: "
                "refuted for flat cells (known finding D3b: the shell count is the literal 3).",
    assumptions=_STATE_ASSUMPTIONS,
    undecided=[
               "convergence error of the truncated sum for the uncut potential", "invariance of the total under re-description of the crystal is argued from the formula, not proved as a two-state theorem"],
)
PROPS["C08"] = dict(
    level="proof", units=["opt", "state", "geom"], kani=["k_basis_set_reset", "k_cell_dof", "k_cell_from_family", "k_site_basis", "k_clone_cell", "k_clone_site", "k_opt_accept_any_kt"] + ["k_tables_label_%s" % g for g in _GROUPS] + ["k_tables_axioms_%s" % g for g in _GROUPS], lemmas=[],
    explanation="Verus proves on the real get_degrees_of_freedom / get_basis / generate_basis (both state kinds) that a valid state yields at least one handle, each with the bounds of the property statement "
                "([0.01, length], [0.1, ratio], [pi/6, pi/2] only for oblique cells, [-1/2,1/2], [0, 2pi/rot]) and the current value inside them; on the real optimiser loop that bounds never change and every value stays inside "
                "its bounds at every step and at both exits (inv.wf, exit*.held), and that the final assert (defined score) cannot fail. Kani proves the same bounds, the frame (a parameter without a handle keeps its bits: the cell stays in its family) "
                "and the clamp on the real pointers for all bit patterns, which also gives chaining: bounds re-derived from in-range values are sub-ranges.",
    assumptions=_OPT_ASSUMPTIONS + _GEOM_ASSUMPTIONS[2:],
    undecided=["'every supported group with any shape starts from a valid state': Verus proves on the real PackedState::initialise / from_family / from_wyckoff that the initial parameters are in range (ratio 1, angle pi/2 or pi/3, positions -1/2+1/(2N), length 4RN >= 0.01 when R >= 0.0025/N); Kani checks on the ITA tables that at that position all copies and lattice images are more than 1/(2N) apart in fractional coordinates (k_tables_axioms_<g>); Verus composes (c08.initial, a counted lemma obligation in unit state): in the square cell of side 4RN such copies are more than 2R apart, so by the shape contract far_apart nothing the overlap test looks at overlaps and the score is defined. The hand-over of 'table = ITA' (C16) and 'placement = wrap(g_k T)' (C15) into the lemma's separation hypothesis is by inspection",
               ],
)
_CLI_ASSUMPTIONS = [
    "cli unit: rayon's `(0..n).into_par_iter().map(f).map(g).map(h).max()` is read sequentially (rule R16: element-wise adapters, `max` = a greatest element by Ord::cmp); the scheduling itself is C09 (not applicable)",
    "cli unit: optimise_state is seen through its contract only — result = opt_r(configuration as mathematical values, input), valid and with a score (unit opt: exit*.held); that it is a FUNCTION of configuration and input is the determinism ledger entry (seeded Pcg64Mcg stream, no other source of randomness or global state)",
    "cli unit: frame of optimise_state (ax_opt_label) — the state is moved in and handed back and is reachable only through the &SharedValue cells of its basis, so group, shape and copies are unchanged",
    "cli unit: serde_json::to_string / File::create+write_all / svg::save / info! are modelled as a ghost World (files written, scores logged); the JSON text records the state's group, shape and copies (ax_json_label: C11)",
    "cli unit: contracts of get_wallpaper_group (Kani k_tables_label_<g>), from_group (unit state fg.*/init.* + C08) and the shape constructors (which shape the arguments denote) are taken as given at the entry point",
    "cli unit: structopt argument parsing and #[paw::main] (how Args is filled from argv and how Err becomes a non-zero exit status) are library code",
]
PROPS["C10"] = dict(
    level="other", units=["state", "opt", "cli"], kani=["k_tables_label_%s" % g for g in _GROUPS] + ["k_clone_cell", "k_clone_site"], lemmas=[],
    explanation="Proved on the real text of main.rs (unit cli): analyse_state returns Ok only after writing <outfile>.json = JSON of replica k and <outfile>.svg = SVG of the same replica k and logging that replica's score, "
                "where k is a best one of the `start_configs` replicas (cli.best; replica i = the code's own stages, generated shape, applied to a copy of the starting state with seed i); zero replicas is an error (cli.empty); "
                "more replications never score lower (cli.monotone: lemma_more_replicas, a counted obligation); main passes the requested replica count (main.replicas) and builds the starting state from the requested group, potential and shape arguments in the right order, "
                "so the written JSON records the requested group, shape and the group's full number of copies (main.label, cli.label). The eight real BuildOptimiser setters are proved to set exactly their field (set.*). "
                "Also: the group lookup returns the requested group's own name, its ITA family and its full number of operations (Kani, complete; p1g1 was labelled p1m1 — defect D5, fixed); "
                "the order on states is the order on their scores and cmp is total when both have scores (Verus, real eq/partial_cmp/cmp of PackedState and of PotentialState); cloning a cell or site yields fresh cells (Kani, all bit patterns), "
                "and the optimiser's random stream is a function of the given seed only (Verus: seed clause, build.seed).",
    assumptions=_STATE_ASSUMPTIONS + _OPT_ASSUMPTIONS[:2] + _CLI_ASSUMPTIONS,
    undecided=["PackedState::from_group is proved to record the group's family and to hold one site with one operation per table string (WyckoffSite::new's map/collect of Results is a shim: on success one operation per string)",
               "what a replica is (number of stages and their settings) is read off the code by vx/gen.py (literal settings; seeds that are sums/differences/products of literals, the replica index and the replica count — a replica depending on the count makes cli.monotone fail); any other setting is outside the generator's subset: undecided",
               "derive(Clone) of PackedState/PotentialState composes the field clones (derive-generated code not verified)"],
)

# C20's sentence about the command line tool is decided in unit cli as well
PROPS["C20"]["units"] = ["opt", "cli"]
PROPS["C20"]["explanation"] += (" Unit cli (real main.rs): analyse_state and main have no reachable panic under the entry contract — Ord::cmp on states is only called on states that have a score "
                                "(its unwrap cannot fail) — and they return Ok only after both output files were written (cli.best), Err for zero replicas (cli.empty) and for a polygon with the LJ potential (main.ljpoly).")
PROPS["C20"]["assumptions"] = _OPT_ASSUMPTIONS + _CLI_ASSUMPTIONS
PROPS["C20"]["undecided"] = ["how #[paw::main] turns Err into a message and a non-zero exit status, and structopt's argument errors, are library code",
                             "that the starting state built by from_group is valid and has a score (precondition of the pipeline) is C08's last sentence: partly proved there",
                             "the prefix statement (run with threshold = prefix of run without) is a two-run hyperproperty; it is argued from the frame of the convergence block, not proved (the native oracle optimiser_contract checks it on sampled runs in the thorough tier)"]

# ---------------------------------------------------------------- C11, C17
KANI["k_serde_f64"] = dict(props=["C11"], kind="complete", fn="basis.rs impl Serialize/Deserialize for SharedValue, F64Visitor",
                           what="all bit patterns: serialize makes exactly one serialize_f64 call with the cell's bits; deserialize of a visited f64 yields a cell holding those bits; a visited f32 is widened exactly")
for _n, _s in [("k_parse_swap", "-y, x"), ("k_parse_parens", "(x, y)"), ("k_parse_const_first", "1/2-x, y+3/4"), ("k_parse_neg_const", "x-1/2, -y"), ("k_parse_mixed", "x-y, x")]:
    KANI[_n] = dict(props=["C17"], kind="bounded", bound="one concrete grammar string: \"%s\"" % _s, fn="transform.rs Transform2::from_operations (real parser)",
                    what="the string \"%s\" parses to exactly the affine map it denotes" % _s)
for _n, _s in [("k_parse_reject_one", "x"), ("k_parse_reject_three", "x,y,z")]:
    KANI[_n] = dict(props=["C17"], kind="bounded", bound="one concrete non-grammar string: \"%s\"" % _s, fn="transform.rs Transform2::from_operations (real parser)",
                    what="the string \"%s\" is reported as an error, no panic" % _s)

PROPS["C11"] = dict(
    level="other", units=["geom", "state"], kani=["k_serde_f64"], lemmas=[], premises=sorted(PREMISES),
    explanation="Scope: hand-written glue, plus the hypothesis of the one assumed dependency contract. Kani proves for all bit patterns that SharedValue's custom Serialize emits exactly one f64 with the cell's bits (no narrowing) and that Deserialize rebuilds a cell with exactly the visited value "
                "(probe Serializer/Deserializer). Verus proves that Transform2::as_svg passes the six matrix entries to the `matrix(a b c d e f)` format string in SVG's column-major order (m00 m10 m01 m11 m02 m12) "
                "and that Into<Matrix3> returns the transform's own matrix. Verus proves on the real loops of both state-level as_svg functions (statement slices, rule R16; the svg crate's builders seen as a list of <use> elements) that the document places the cell outline at the cell and its 8 neighbours and then, for every placement in order, the shape at the placement's Cartesian transform (blue) followed by the shape at exactly that placement's nearest lattice images, untranslated one excluded (green) (svg.uses, svg.block). "
                "The derive-generated Serialize/Deserialize of the 14 state/cell/site/shape structs is ASSUMED (not verified) to write and read every field when the struct carries both derives and no #[serde(..)] attribute; "
                "that hypothesis is checked on the struct text extracted from the working tree on every run (premises, counted separately, never as proved obligations). When it stops holding the assumed contract no longer applies: "
                "the native round-trip oracle (replay/witness.rs::serde_roundtrip: 7 groups x 6 shapes x 40 parameter vectors, Debug rendering / copies / score before and after JSON) is run and a violation is reported only with the failing input it finds; otherwise undecided.",
    assumptions=_STATE_ASSUMPTIONS + ["svg shims: Document::add appends one element, Use::set(\"href\"|\"fill\", v) sets that attribute only; Transform2::as_svg yields a <use> carrying the transform (unit geom svg.order)", "serde derive on a struct with both derives and no #[serde(..)] attribute serialises every field under its own name and deserialises every field (derive-generated code is not verified; the hypothesis on the struct text is checked every run)"],
    undecided=["the derive-generated code itself (macro output, no contract within reach): only the hypothesis of its assumed contract is checked",
               "decimal printing/parsing inside serde_json (an independent seeding agent observed 1-ulp differences on the pinned serde_json 1.0.57 without float_roundtrip: 'identical score' holds only to ~1e-16 relative)",
               "the svg crate itself (element/attribute text), the viewBox arithmetic and the <defs> of cell and shape (outside the slice)"],
)
PROPS["C17"] = dict(
    level="other", units=["geom"], lemmas=[],
    kani=["k_tables_%s_%d" % (g, k) for g, n in _GROUPS.items() for k in range(n)] + ["k_parse_swap", "k_parse_parens", "k_parse_const_first", "k_parse_neg_const", "k_parse_mixed", "k_parse_reject_one", "k_parse_reject_three"],
    explanation="Verus, on the real text of from_operations: (1) the per-character `match` (statement slice fo_char) refines the notation's transition function step_row (fo.step) and cannot trap; (2) the WHOLE function (component loop and "
                "character loop, R16/R16c) returns Ok with matrix rows (a, b, k) = fold of step_row over the characters of each of the two components whenever both fold, third row zero, and Err when there are not exactly two components "
                "(fo.whole, fo.dims; loop invariants fo.inv*); (3) the induction over strings (fo.grammar, fo.component: counted proof obligations): for every component made of an x term, a y term and a single-digit rational constant "
                "in ANY order, each at most once, with signs, optional '+' and optional blanks, the fold equals the value of the expression (coefficient of x, of y, constant) — so every string of the grammar parses to the map it denotes. "
                "No reachable panic in the function for any input (body obligations), including the real constructor Transform2::from(Matrix3) it ends with (from.matrix). (4) The WHOLE real WyckoffSite::new (map + Result-collect, R16): on success one operation per table string, in order, "
                "each being what from_operations promises of that string (wy.new.len, wy.new.each); any table containing a string without exactly two components yields Err (wy.new.err, for every table - the Kani harness on one malformed table is kept as a bounded cross-check); well-formed strings yield Ok (wy.new.ok). Kani runs the whole real parser, string library included, on the 19 strings the crate itself parses (complete for that set) and on seven further strings (bounded stand-ins).",
    assumptions=_GEOM_ASSUMPTIONS[:1] + ["digit_val shim: `c.to_string().parse::<u64>()? as f64` on a character matched by '0'..='9' returns its decimal value and cannot fail",
                                         "string-library shims: `trim_matches(&['(', ')']).split_terminator(',').collect()` yields the components ops_spec(s) (uninterpreted: which substrings they are is not proved), `op.chars()` yields the characters of the component in order"],
    undecided=["that the components of \"(r0,r1)\" are r0 and r1 (semantics of trim_matches/split_terminator) is string-library code: assumed through ops_spec, exercised by the Kani strings and the parse_grammar oracle",
               "'*' and a digit after an operator other than '/' are outside the notation: step_row is undefined there and the contract only requires no panic",
               "non-ASCII input: every char outside the listed ones reaches the `other => Err` arm of the `match` as written"],
)

# ---------------------------------------------------------------- dependencies between properties
# A property whose statement presupposes another's conclusion also runs that one's obligations: a failure there is a violation here too.
#   C02 ("the score is the packing fraction, never above 1") presupposes C01 (a scored state has no overlap): W02/2 broke Atom2::intersects.
#   C15 ("placement k = operation k of the group ...") presupposes that the table holds the group's operations (C16): W15/2 edited the p2gg table.
#   C01 ("no two copies overlap") presupposes that the pair predicate is the exact geometric one (C12); C03 ("the score is the crystal's interaction
#   energy") presupposes the pair potential (C13).  Closed under transitivity below (C02 -> C01 -> C12).
DEPENDS = {"C02": ["C01", "C12"], "C15": ["C16"], "C01": ["C12"], "C03": ["C13"]}
for _p, _ds in DEPENDS.items():
    for _d in _ds:
        for _key in ("units", "kani", "lemmas"):
            PROPS[_p][_key] = list(PROPS[_p].get(_key, [])) + [x for x in PROPS[_d].get(_key, []) if x not in PROPS[_p].get(_key, [])]
        PROPS[_p]["explanation"] += " Also runs the obligations of %s, which this property presupposes." % _d
PROPS["C04"]["units"] = ["geom", "pairs"]
PROPS["C04"]["explanation"] += " The shapes' transform() clauses of unit pairs (a placed shape is the shape moved componentwise by the FULL transform, linear part included) and the SVG matrix order are obligations of this property too."
# C01's last sentence ("every state ... the CLI can write is a physically realisable packing") presupposes that the written parameters are
# the scored ones: the serde glue of the parameter cells (W01/2 narrowed them to f32 on the way out)
KANI["k_serde_f64"]["props"] = sorted(set(KANI["k_serde_f64"]["props"]) | {"C01"})
PROPS["C01"]["kani"] = list(PROPS["C01"].get("kani", [])) + ["k_serde_f64"]
# C06 ("... or the input if none was accepted") presupposes that building the handles leaves the parameters as they are: the frame part of
# the handle harnesses (X06/2 normalised the angle inside get_basis)
for _h in ("k_site_basis", "k_cell_dof"):
    KANI[_h]["props"] = sorted(set(KANI[_h]["props"]) | {"C06"})
PROPS["C06"]["kani"] = list(PROPS["C06"].get("kani", [])) + ["k_site_basis", "k_cell_dof"]
PROPS["C06"]["explanation"] += " Also: building the handles (get_degrees_of_freedom / get_basis) leaves every parameter bit-identical (Kani k_cell_dof, k_site_basis)."
# C13 and C03 speak of the potential the tool was asked for: the entry point passing the LJ shape to the LJ state is main.label (X13/2 sent
# `circle --potential LJ` to the hard-disc model)
PROPS["C13"]["units"] = list(PROPS["C13"]["units"]) + ["cli"]
PROPS["C03"]["units"] = list(PROPS["C03"]["units"]) + (["cli"] if "cli" not in PROPS["C03"]["units"] else [])
# Every unit that carries a clause tagged for a property is built by that property's check (tools/deadtags.py lists tags that are not):
# a tag in a unit the property never builds would be dead text.
for _p, _us in {"C01": ["opt"], "C04": ["state"], "C05": ["cli"], "C10": ["geom"], "C12": ["geom"], "C13": ["geom"], "C14": ["state"], "C15": ["state"],
                "C16": ["geom"], "C18": ["cli"], "C19": ["cli"], "C20": ["state"]}.items():
    PROPS[_p]["units"] = list(PROPS[_p].get("units", [])) + [u_ for u_ in _us if u_ not in PROPS[_p].get("units", [])]
# WyckoffSite::new (the step from the table strings to the list of operations) under Kani: round-6 seeds Y16/1, Y16/2, Y17/2 changed it and
# nothing looked (it was a shim "on success one operation per string")
for _g in _GROUPS:
    KANI["k_wyckoff_new_%s" % _g] = dict(props=["C16", "C15", "C04", "C10", "C17"], kind="complete", fn="wallpaper.rs WyckoffSite::new on the %s table" % _g,
        what="the site built from the %s table holds exactly one operation per table string, each a general position of the group (ITA oracle, modulo the lattice), no position twice" % _g)
KANI["k_wyckoff_new_bad"] = dict(props=["C17", "C16"], kind="bounded", bound="the one malformed table [\"x,y\", \"x\"]", fn="wallpaper.rs WyckoffSite::new on a table with a malformed string",
    what="a table with a one-component string does not yield a site (the parse error is propagated, not swallowed)")
for _p in ("C16", "C15", "C04", "C10"):
    PROPS[_p]["kani"] = list(PROPS[_p].get("kani", [])) + ["k_wyckoff_new_%s" % g for g in _GROUPS if "k_wyckoff_new_%s" % g not in PROPS[_p].get("kani", [])]
PROPS["C17"]["kani"] = list(PROPS["C17"]["kani"]) + ["k_wyckoff_new_%s" % g for g in _GROUPS] + ["k_wyckoff_new_bad"]
PROPS["C16"]["kani"] = list(PROPS["C16"]["kani"]) + ["k_wyckoff_new_bad"]
for _p in ("C07", "C11"):
    PROPS[_p]["units"] = list(PROPS[_p].get("units", [])) + (["cli"] if "cli" not in PROPS[_p].get("units", []) else [])
# A shim that assumes a clause proved in another unit takes the clause's text from that unit (`@clause(unit:fn:id)` in a .unit file); every
# property that builds the assuming unit also builds the proving one, so the clause is discharged in the same run (tools/deadtags.py checks it).
import os as _os, re as _re
_ud = _os.path.join(_os.path.dirname(_os.path.dirname(_os.path.abspath(__file__))), "units")
IMPORTS = {}
for _f in sorted(_os.listdir(_ud)):
    if _f.endswith(".unit"):
        _src = sorted(set(_re.findall(r"@clause\((\w+):\w+:[\w.]+\)", open(_os.path.join(_ud, _f)).read())))
        if _src:
            IMPORTS[_f[:-5]] = _src
for _p in PROPS:
    for _u in list(PROPS[_p].get("units", [])):
        for _s in IMPORTS.get(_u, []):
            if _s not in PROPS[_p]["units"]:
                PROPS[_p]["units"] = list(PROPS[_p]["units"]) + [_s]
