"""Property -> obligations registry (DESIGN 3.7).  V obligations are the clauses tagged with the
property id inside the listed units; K and Z obligations are listed here by name."""

COMMON_ASSUMPTIONS = [
    "Verus 0.2026.09.13 / Z3, Kani 0.68 / CBMC 6.11 and bare z3 4.8.12 are sound",
    "the extractor's rewrite rules (DESIGN 3.2, counted per run in coverage.extraction_rules_applied) mean what DESIGN says; the verified text is /repo's text after those rules",
    "Theory M: in Verus units f64 arithmetic, comparisons and literals are those of the reals (no rounding, NaN, infinities); x/0 is an unspecified real",
]

KANI = {
    "k_basis_set_reset": dict(props=["C06", "C08"], kind="complete", fn="basis.rs StandardBasis::{new,set_value,reset_value,get_value}, SharedValue::{new,get_value,set_value}",
                              what="all 2^64 bit patterns of value, proposal and bounds (min<=max): restore point = bits before; stored value = clamp; numeric proposals land in [min,max]; no other cell written; reset restores the bits"),
    "k_basis_two_handles": dict(props=["C06"], kind="complete", fn="basis.rs StandardBasis::{set_value,reset_value}",
                                what="two handles on distinct cells never interfere (justifies aliasing model R8)"),
    "k_opt_accept_zero": dict(props=["C05", "C07"], kind="complete", fn="optimisation.rs MCOptimiser::{accept_score,test_acceptance,energy_surface}",
                              what="kT=+0.0, all non-NaN scores, all generator outputs: accepted iff the proposal has a score >= old; exp replaced by its C99 special-value model"),
    "k_opt_accept_any_kt": dict(props=["C07"], kind="complete", fn="optimisation.rs MCOptimiser::accept_score",
                                what="every kT bit pattern: None never accepted; accepted value is the proposed one; strictly better always accepted"),
    "k_opt_draw_range": dict(props=["C07"], kind="complete", fn="rand 0.7 Standard f64 sampling via Rng::gen",
                             what="the uniform draw lies in [0,1) for every 64-bit generator output (checks the rand shim's range claim on the real crate)"),
}

_OPT_ASSUMPTIONS = [
    "aliasing model R8/R9: a StandardBasis is the only writer of its cell and State::score() depends on the parameter cells only (backed by K:k_basis_set_reset / k_basis_two_handles on the real pointers)",
    "rand shim: gen::<f64>() in [0,1), gen_range(lo,hi) in [lo,hi), Uniform::new(0,n).sample < n (range claim checked by K:k_opt_draw_range); uniformity of the draws is assumed",
    "bridge contract accept_score_w = conjunction of V-proved clauses (kT>0) and Kani-proved clauses (kT=+0.0, undefined score); the conjunction itself is trusted text",
    "a starting temperature of -0.0 is excluded (pos_zero precondition); NaN scores are outside every precondition",
    "exp_r is uninterpreted with axioms exp>0, exp(x)>=1 for x>=0, exp(x)<1 for x<0; pow_r with the root axiom ax_root_pow",
]

PROPS = {
    "C05": dict(
        level="proof", units=["opt"], kani=["k_opt_accept_zero"], lemmas=[],
        explanation="Deductive proof (Verus) that the real optimise_state loop keeps kT bitwise equal to kt_start when kt_start is zero "
                    "(inv.zero), that every accepted score is >= the previous one (accept.monotone) and that the returned state's score is >= the "
                    "input's (exit*.hillclimb), for all steps/inner_steps/ratios/convergence settings and all accept/reject histories; the zero-temperature "
                    "acceptance rule itself is proved bit-precisely by Kani on the real accept_score for every pair of scores and every generator output.",
        assumptions=_OPT_ASSUMPTIONS,
        undecided=["the three-stage CLI pipeline in main.rs (rayon/structopt) is not under contract"],
    ),
    "C06": dict(
        level="proof", units=["opt"], kani=["k_basis_set_reset", "k_basis_two_handles"], lemmas=[],
        explanation="Kani proves on the real UnsafeCell pointers, for all bit patterns, that set_value saves the previous bits, stores the clamped proposal, "
                    "writes no other cell, and reset_value restores the saved bits.  Verus proves the loop invariant inv.held for every history: after each "
                    "step the parameter vector is the proposal (accepted) or bit-identical to the one before (reject.bitwise), at most one parameter differs "
                    "(step.one), and the score held in score_current is the score of the held parameters at every exit.",
        assumptions=_OPT_ASSUMPTIONS,
    ),
    "C07": dict(
        level="proof", units=["opt"], kani=["k_opt_accept_zero", "k_opt_accept_any_kt", "k_opt_draw_range"], lemmas=[],
        explanation="Verus proves the bodies of energy_surface/test_acceptance/accept_score equal the Metropolis rule written from the property statement "
                    "(metropolis(u,new,old,kT)) for every kT>0, with u the single uniform draw; Kani proves the kT=+0 and undefined-score clauses on the real code. "
                    "The probabilistic clause follows from u uniform in [0,1) (assumed of rand).",
        assumptions=_OPT_ASSUMPTIONS,
    ),
    "C18": dict(
        level="proof", units=["opt"], kani=[], lemmas=[],
        explanation="Verus proves inv.schedule (kT at outer loop i equals kt_start * factor^(i-1)), inv2.ktconst (kT is not assigned inside an inner loop), "
                    "inv.zero (zero stays zero) on the real loop for all iteration counts, and build()'s choice of factor: 1-ratio, or the factor whose "
                    "L-th power is kt_finish/kt_start with L the number of cooling steps.",
        assumptions=_OPT_ASSUMPTIONS,
        undecided=["when neither ratio nor finish is given the property prescribes nothing and the contract is silent"],
    ),
    "C19": dict(
        level="proof", units=["opt"], kani=[], lemmas=[],
        explanation="Verus proves on the real sample/set_sampled/optimise_state: a proposal changes exactly the chosen parameter (step.one), the proposed value is "
                    "clamp(cur + step*range*u) with u in [-1/2,1/2) (step.sampled), step = max_step_size*step_ratio with 0<=step_ratio<=1 at every loop (inv.step), "
                    "hence |delta| <= max_step_size*range/2 (step.bound), for all rejection histories and loop counts.",
        assumptions=_OPT_ASSUMPTIONS,
    ),
    "C20": dict(
        level="proof", units=["opt"], kani=[], lemmas=[],
        explanation="Verus proves total correctness of the real optimise_state: both loops terminate, no division by zero, no index out of range, the input panic and "
                    "the final assert are unreachable under the documented precondition (valid state with a score); the ghost evaluation counter equals loops*inner_steps, "
                    "is <= steps and > steps-inner_steps at normal exit; early exit only when the property's own run counter exceeds 5 (inv.conv, exit.conv). "
                    "build() establishes 1 <= inner_steps for every configuration.",
        assumptions=_OPT_ASSUMPTIONS,
        undecided=["CLI exit paths in main.rs are not under contract", "the prefix statement (run with threshold = prefix of run without) is a two-run hyperproperty; it is argued from the frame of the convergence block, not proved"],
    ),
}

NOT_APPLICABLE = {
    "C09": "quantifies over thread schedules and interleavings of the rayon pipeline; Kani has no thread support and Verus would need the code rewritten onto its permission types, so no contract within reach can express or decide schedule independence or the soundness of `unsafe impl Sync for SharedValue` (the sequential ingredients — clone isolation, seed plumbing, optimiser frame — are proved under C10/C06)",
}
