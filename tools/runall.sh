#!/bin/sh
# run every registered quick (or $1) check with a per-check time limit; summary on stdout
cd "$(dirname "$0")/.."
tier=${1:-quick}
for p in $(python3 -c "import json;print(' '.join(c['property_id'] for c in json.load(open('MANIFEST.json'))['checks']))"); do
  s=$(date +%s)
  timeout ${RUNALL_TIMEOUT:-1500} ./check $p $tier > /tmp/runall_$p.log 2>&1
  rc=$?
  e=$(date +%s)
  echo "$p rc=$rc $((e-s))s $(grep -c VIOLATION /tmp/runall_$p.log) violations; $(tail -1 /tmp/runall_$p.log | cut -c1-160)"
done
