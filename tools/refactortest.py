#!/usr/bin/env python3
"""Self-test for false alarms: apply behaviour-preserving refactorings and check that no check exits 1.
usage: refactortest.py <seed_root> <worker> <R/i> ..."""
import json, os, re, shutil, subprocess, sys
root, worker = sys.argv[1], sys.argv[2]
VERIF = os.path.dirname(os.path.dirname(os.path.abspath(__file__)))
# file -> Verus units that extract from it; every property whose check builds one of those units is run (so that an obligation tagged for a
# property the file "does not belong to" is exercised too: R8/4 broke a C14-tagged invariant in src/state/potential.rs)
UNITS = [
    ("src/optimisation.rs", ["opt", "cli"]), ("src/basis.rs", ["opt", "state"]), ("src/cell.rs", ["geom", "state"]), ("src/transform.rs", ["geom", "state", "pairs"]),
    ("src/site.rs", ["geom", "state"]), ("src/wallpaper.rs", ["geom", "state", "cli"]), ("src/to_svg.rs", ["geom", "state"]), ("src/state/", ["state"]),
    ("src/shape/", ["pairs"]), ("src/main.rs", ["cli"]),
]
sys.path.insert(0, VERIF)
from vx import registry as _REG
MAP = [(pre, [p for p in sorted(_REG.PROPS) if set(_REG.PROPS[p].get("units", [])) & set(us)]) for pre, us in UNITS]
for item in sys.argv[3:]:
    R_, i = item.split("/")
    sd = os.path.join(root, R_, "seeded", i)
    wt = "/tmp/seedrun/r%s" % worker
    shutil.rmtree(wt, ignore_errors=True)
    subprocess.check_call(["rsync", "-a", "--exclude", "target", "--exclude", ".git", "/repo/", wt + "/"])
    p = subprocess.run("patch -p1 < %s/patch.diff" % sd, cwd=wt, shell=True, capture_output=True, text=True)
    rec = dict(refactor=item, patch_applies=p.returncode == 0)
    files = re.findall(r"^\+\+\+ b/(\S+)", open(os.path.join(sd, "patch.diff")).read(), re.M)
    props = []
    for f in files:
        for pre, ps in MAP:
            if f.startswith(pre):
                props += [x for x in ps if x not in props]
    rec["files"], rec["checks"] = files, {}
    env = dict(os.environ, VERIF_REPO=wt, VERIF_EVIDENCE_DIR="/tmp/seedrun/rev%s" % worker, VERIF_REPLAY_DIR="/tmp/seedrun/rrp%s" % worker,
               VERIF_NO_REPLAY="1", VERIF_SKIP_KANI="1")
    for q in props:
        pr = subprocess.run(["./check", q, "quick"], cwd=VERIF, capture_output=True, text=True, timeout=1800, env=env)
        viol = re.findall(r"VIOLATION property=\S+ replay=\S+ obligation=(\S+)", pr.stdout)
        rec["checks"][q] = dict(rc=pr.returncode, obligations=viol, undecided=[l[:220] for l in pr.stderr.split("\n") if l.startswith("UNDECIDED")][:2])
    rec["false_alarms"] = [q for q, v in rec["checks"].items() if v["rc"] == 1]
    print(json.dumps(rec)); sys.stdout.flush()
    shutil.rmtree(wt, ignore_errors=True)
