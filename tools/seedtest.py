#!/usr/bin/env python3
"""Confirm seeded changes and run the checks against them (self-test, not a registered command).
usage: seedtest.py <seed_root> <worker_id> <P/i> [<P/i> ...]
For each seed: scratch copy of /repo -> apply patch -> existing tests must pass -> demo must fail ->
revert -> demo must pass -> run ./check <P> quick against the patched copy (VERIF_REPO)."""
import json, os, re, shutil, subprocess, sys, time
root, worker = sys.argv[1], sys.argv[2]
VERIF = os.path.dirname(os.path.dirname(os.path.abspath(__file__)))
tgt = "/tmp/seedrun/target%s" % worker
os.makedirs("/tmp/seedrun", exist_ok=True)
env = dict(os.environ, CARGO_NET_OFFLINE="true", CARGO_TARGET_DIR=tgt)

def sh(cmd, cwd, timeout=1800, env=env):
    p = subprocess.run(cmd, cwd=cwd, shell=True, capture_output=True, text=True, timeout=timeout, env=env)
    return p.returncode, p.stdout + p.stderr

def suite_ok(out):
    res = re.findall(r"test result: (\w+)\. (\d+) passed; (\d+) failed", out)
    # unit tests (88), main (0), packing (1), potential (1), doctests (11 passed 1 failed known)
    bad = [r for r in res if r[0] != "ok" and not (r[1] == "11" and r[2] == "1")]
    tot = sum(int(r[1]) for r in res)
    return (not bad) and tot >= 101, res

for item in sys.argv[3:]:
    P, i = item.split("/")
    sd = os.path.join(root, P, "seeded", i)
    wt = "/tmp/seedrun/w%s" % worker
    shutil.rmtree(wt, ignore_errors=True)
    subprocess.check_call(["rsync", "-a", "--exclude", "target", "--exclude", ".git", "/repo/", wt + "/"])
    prop_id = "C" + P[1:]
    rec = dict(seed=item, property=prop_id)
    t0 = time.time()
    rc, out = sh("patch -p1 < %s/patch.diff" % sd, wt)
    rec["patch_applies"] = rc == 0
    if rc != 0:
        rec["error"] = out[-400:]
        print(json.dumps(rec)); sys.stdout.flush(); continue
    rc, out = sh("cargo test --workspace --offline --no-fail-fast 2>&1 | grep 'test result'", wt)
    ok, res = suite_ok(out)
    rec["suite_passes_with_change"] = ok
    rec["suite"] = res
    shutil.copy(os.path.join(sd, "demo.rs"), os.path.join(wt, "tests", "seed_demo.rs"))
    rc, out = sh("cargo test --offline --test seed_demo 2>&1 | grep -E 'test result|error' | head -5", wt)
    rec["demo_fails_with_change"] = "FAILED" in out
    rec["demo_with"] = out.strip()[:200]
    sh("patch -R -p1 < %s/patch.diff" % sd, wt)
    rc, out = sh("cargo test --offline --test seed_demo 2>&1 | grep -E 'test result|error' | head -5", wt)
    rec["demo_passes_without"] = ("test result: ok" in out) and ("FAILED" not in out)
    rec["demo_without"] = out.strip()[:200]
    os.remove(os.path.join(wt, "tests", "seed_demo.rs"))
    sh("patch -p1 < %s/patch.diff" % sd, wt)
    # the checks
    cenv = dict(os.environ, VERIF_REPO=wt, VERIF_EVIDENCE_DIR="/tmp/seedrun/ev%s" % worker, VERIF_REPLAY_DIR="/tmp/seedrun/rp%s" % worker, **({} if os.environ.get("SEEDTEST_REPLAY") == "1" else {"VERIF_NO_REPLAY": "1"}))
    props = [prop_id]
    rec["checks"] = {}
    for q in props:
        try:
            p = subprocess.run(["./check", q, "quick"], cwd=VERIF, capture_output=True, text=True, timeout=2400, env=cenv)
            viol = re.findall(r"VIOLATION property=\S+ replay=\S+ obligation=(\S+)", p.stdout)
            rec["checks"][q] = dict(rc=p.returncode, obligations=viol, witnessed=[o for o in viol if ("obligation=%s no-failing-input-found" % o) not in p.stdout], undecided=[l[:200] for l in p.stderr.split("\n") if l.startswith("UNDECIDED")][:3])
        except subprocess.TimeoutExpired:
            rec["checks"][q] = dict(rc="timeout")
    rec["seconds"] = round(time.time() - t0)
    print(json.dumps(rec)); sys.stdout.flush()
    shutil.rmtree(wt, ignore_errors=True)
