#!/usr/bin/env python3
"""Fill DESIGN.md section I.10 (between the SEEDS markers) from /verif/seeded/*/meta.json."""
import glob, json, os, re
V = os.path.dirname(os.path.dirname(os.path.abspath(__file__)))
seeds, neutrals = [], []
for d in sorted(glob.glob(os.path.join(V, "seeded", "*"))):
    mp = os.path.join(d, "meta.json")
    if not os.path.exists(mp):
        continue
    m = json.load(open(mp))
    (neutrals if os.path.basename(d).startswith("neutral-") else seeds).append((os.path.basename(d), m))
out = []
out.append("Property-breaking changes (each compiles and passes the 90 tests; each was confirmed by `tools/seedtest.py`: existing suite passes with the change, the agent's demonstration fails with it and passes without it).  "
           "`caught` = the property's quick check exits 1 with a VIOLATION naming the obligation; `undecided` = exit 2 (the change restructured code beyond the extraction rules or used a construct outside the shims: never an alarm, never a pass); `missed` = exit 0.  **†** = the replay carries a concrete failing input against the real code (Kani playback that fails natively, or a native witness oracle); without it the VIOLATION line ends in `no-failing-input-found`.\n")
out.append("| id | property | file | what needs to happen for it to manifest (agent's note, first line) | verdict | failing obligations / reason |")
out.append("|----|----------|------|--------------------------------------------------------------------|---------|------------------------------|")
cnt = {}
wit = [0]
for name, m in seeds:
    c = m["check"]
    cnt[c["verdict"]] = cnt.get(c["verdict"], 0) + 1
    first = next((l.strip("# ").strip() for l in m.get("needs_to_manifest", "").split("\n") if l.strip()), "")[:120].replace("|", "/")
    why = ", ".join(c.get("failing_obligations", [])[:3]) or "; ".join(re.sub(r"^UNDECIDED property=\S+: ", "", u)[:140] for u in c.get("undecided_reason", [])[:1])
    mark = " †" if c.get("failing_input_found_for") else ""
    wit[0] += 1 if (c["verdict"] == "caught" and mark) else 0
    out.append("| %s | %s | %s | %s | **%s**%s | %s |" % (name, m["property"], ", ".join(os.path.basename(f) for f in m["files"]), first, c["verdict"], mark, why.replace("|", "/")))
out.append("\nTotals: %d seeded changes — %s; %d of the caught ones with a concrete failing input (†)." % (len(seeds), ", ".join("%d %s" % (v, k) for k, v in sorted(cnt.items())), wit[0]))
out.append("\nBehaviour-preserving refactorings (false-alarm self-test; V and Z obligations of every property mapped to the touched file were run, Kani skipped):\n")
out.append("| id | file | outcome |")
out.append("|----|------|---------|")
fa = 0
for name, m in neutrals:
    vs = {k: v["verdict"] for k, v in m["checks"].items()}
    bad = [k for k, v in vs.items() if v == "FALSE ALARM"]
    fa += len(bad)
    und = [k for k, v in vs.items() if v.startswith("undecided")]
    out.append("| %s | %s | %s |" % (name, ", ".join(os.path.basename(f) for f in m["files"]), "FALSE ALARM for " + ",".join(bad) if bad else ("silent" if not und else "silent; undecided (exit 2) for " + ",".join(und))))
out.append("\nTotals: %d refactorings, %d false alarms." % (len(neutrals), fa))
p = os.path.join(V, "DESIGN.md")
s = open(p).read()
a, b = s.index("<!-- SEEDS-BEGIN -->"), s.index("<!-- SEEDS-END -->")
s = s[:a] + "<!-- SEEDS-BEGIN -->\n" + "\n".join(out) + "\n" + s[b:]
open(p, "w").write(s)
print("seeds", len(seeds), cnt, "neutral", len(neutrals), "false alarms", fa)
