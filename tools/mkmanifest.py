#!/usr/bin/env python3
"""Regenerate /verif/MANIFEST.json from vx/registry.py (checks) + properties.jsonl (ids)."""
import json, os, subprocess, sys
V = os.path.dirname(os.path.dirname(os.path.abspath(__file__)))
sys.path.insert(0, V)
from vx import registry as R
props = [json.loads(l) for l in open(os.path.join(V, "properties.jsonl"))]
hooks = subprocess.run(["git", "-C", "/repo", "log", "--format=%h %s", "--grep=^verif hook"], capture_output=True, text=True).stdout.strip().split("\n")
checks = []
for p in props:
    pid = p["id"]
    if pid not in R.PROPS:
        continue
    d = R.PROPS[pid]
    checks.append(dict(
        property_id=pid, quick_cmd="./check %s quick" % pid, thorough_cmd="./check %s thorough" % pid,
        evidence_file="/verif/evidence/%s.json" % pid, replay_cmd_template="./check %s quick --replay {path}" % pid, engine="vx",
        level_claimed=dict(category=d["level"], text=d["explanation"], design_ref="DESIGN.md §5 " + pid),
        level_note="; ".join(d.get("assumptions", []) + R.COMMON_ASSUMPTIONS + ["undecided: " + u for u in d.get("undecided", [])])[:4000],
        technique=d.get("technique", "contract-based deductive verification: Verus on mechanically extracted real functions with spliced contracts; Kani harnesses/contracts on the real crate; z3 lemmas")))
na = [dict(property_id=p["id"], reason=R.NOT_APPLICABLE.get(p["id"], "unit not completed yet (work in progress; see DESIGN.md §5)"))
      for p in props if p["id"] not in R.PROPS]
m = dict(version=1, setup_cmd="./setup.sh",
         hooks=dict(guard="kani", enable="cargo kani (sets --cfg kani); harness modules are included by `#[cfg(kani)] #[path = \"/verif/kani/<module>.rs\"] mod verif_kani;`",
                    baseline_off_cmd="cd /repo && cargo test --workspace --no-fail-fast --offline", source_commits=[h for h in hooks if h], add_only=True),
         engines=[dict(name="vx", path="/verif/check", serves_properties=sorted(R.PROPS), kind_free_text="driver: extractor + Verus + Kani + z3 (contract-based deductive verification of the real code)")],
         checks=checks, notes="Design, assumption ledger and seeded-change results: DESIGN.md. Known findings and fixed defects: known_findings.json.", not_applicable=na)
json.dump(m, open(os.path.join(V, "MANIFEST.json"), "w"), indent=1)
print("checks:", [c["property_id"] for c in checks], "n/a:", [n["property_id"] for n in na])
