#!/usr/bin/env python3
"""Collect confirmed seeded changes into /verif/seeded/<P>-<i>/ and print the DESIGN table.
usage: seedreport.py <seed_root> <result_log> [<result_log> ...]"""
import json, os, re, shutil, sys
V = os.path.dirname(os.path.dirname(os.path.abspath(__file__)))
root = sys.argv[1]
rows = {}
for f in sys.argv[2:]:
    for l in open(f):
        try:
            r = json.loads(l)
        except Exception:
            continue
        rows[r["seed"]] = r
out = []
for seed in sorted(rows):
    r = rows[seed]
    P, i = seed.split("/")
    prop_id = r.get("property", P)
    ok = r.get("suite_passes_with_change") and r.get("demo_fails_with_change") and r.get("demo_passes_without")
    if not ok:
        continue
    src = os.path.join(root, P, "seeded", i)
    dst = os.path.join(V, "seeded", "%s-%s" % (P, i))
    os.makedirs(dst, exist_ok=True)
    for fn in ("patch.diff", "demo.rs", "notes.md"):
        if os.path.exists(os.path.join(src, fn)):
            shutil.copy(os.path.join(src, fn), os.path.join(dst, fn))
    notes = open(os.path.join(src, "notes.md")).read() if os.path.exists(os.path.join(src, "notes.md")) else ""
    c = r.get("checks", {}).get(prop_id, {})
    verdict = {1: "caught", 0: "missed", 2: "undecided"}.get(c.get("rc"), str(c.get("rc")))
    files = re.findall(r"^\+\+\+ b/(\S+)", open(os.path.join(src, "patch.diff")).read(), re.M)
    meta = dict(
        property=prop_id, seed=seed, files=files,
        needs_to_manifest=notes.strip()[:1500],
        origin="independent sub-agent given only the property text and its own scratch worktree of /repo",
        confirmed_by=dict(
            ran=["patch -p1 < patch.diff on a scratch copy of /repo", "cargo test --workspace --offline --no-fail-fast (88 unit + 2 integration tests must pass; the known ops_macros doctest failure ignored)",
                 "cargo test --offline --test seed_demo with the change (must fail)", "same without the change (must pass)"],
            suite_passes_with_change=bool(r.get("suite_passes_with_change")), demo_fails_with_change=bool(r.get("demo_fails_with_change")),
            demo_passes_without=bool(r.get("demo_passes_without"))),
        check=dict(cmd="VERIF_REPO=<patched copy> ./check %s quick" % prop_id, exit_code=c.get("rc"), verdict=verdict,
                   failing_obligations=c.get("obligations", []), failing_input_found_for=c.get("witnessed", []), undecided_reason=[u[:300] for u in c.get("undecided", [])]))
    json.dump(meta, open(os.path.join(dst, "meta.json"), "w"), indent=1)
    what = notes.strip().split("\n")
    title = next((w.strip("# ").strip() for w in what if w.strip()), "")[:110]
    out.append("| %s | %s | %s | %s | %s |" % (seed, ", ".join(files), title.replace("|", "/"), verdict,
                                             ", ".join(c.get("obligations", [])[:3]) or "; ".join(u[22:150] for u in c.get("undecided", [])[:1])))
print("| seed | file | change | verdict | failing obligation(s) / reason |")
print("|------|------|--------|---------|-------------------------------|")
print("\n".join(out))
tot = len(out)
print("\n%d confirmed changes: %d caught, %d undecided (exit 2), %d missed" % (
    tot, sum("| caught |" in o for o in out), sum("| undecided |" in o for o in out), sum("| missed |" in o for o in out)))
