#!/usr/bin/env python3
"""Record behaviour-preserving refactorings (false-alarm self-test) under /verif/seeded/neutral-<R>-<i>/.
usage: neutralreport.py <seed_root> <refactortest log> ..."""
import json, os, shutil, sys
V = os.path.dirname(os.path.dirname(os.path.abspath(__file__)))
root = sys.argv[1]
for f in sys.argv[2:]:
    for l in open(f):
        try:
            r = json.loads(l)
        except Exception:
            continue
        R_, i = r["refactor"].split("/")
        src = os.path.join(root, R_, "seeded", i)
        dst = os.path.join(V, "seeded", "neutral-%s-%s" % (R_, i))
        os.makedirs(dst, exist_ok=True)
        for fn in ("patch.diff", "notes.md"):
            if os.path.exists(os.path.join(src, fn)):
                shutil.copy(os.path.join(src, fn), os.path.join(dst, fn))
        notes = open(os.path.join(src, "notes.md")).read() if os.path.exists(os.path.join(src, "notes.md")) else ""
        meta = dict(kind="behaviour-preserving refactoring (false-alarm self-test)", refactor=r["refactor"], files=r.get("files", []), what=notes.strip()[:1500],
                    origin="independent sub-agent given only the file list and its own scratch worktree; it confirmed the test suite still passes",
                    checks={q: dict(exit_code=v["rc"], verdict={0: "silent", 1: "FALSE ALARM", 2: "undecided"}.get(v["rc"], str(v["rc"])), reason=v.get("undecided", []))
                            for q, v in r.get("checks", {}).items()})
        json.dump(meta, open(os.path.join(dst, "meta.json"), "w"), indent=1)
        print(r["refactor"], {q: c["verdict"] for q, c in meta["checks"].items()})
