#!/usr/bin/env python3
"""List property tags on clauses/functions of a unit that the property's check does not build (must print nothing)."""
import collections, os, sys
V = os.path.dirname(os.path.dirname(os.path.abspath(__file__)))
sys.path.insert(0, V)
from vx import unit as U, registry as R
bad = 0
for un in sorted(f[:-5] for f in os.listdir(os.path.join(V, "units")) if f.endswith(".unit")):
    u = U.build(os.path.join(V, "units", un + ".unit"), os.environ.get("VERIF_REPO", "/repo"))
    for c in u.clauses:
        for p in c.props:
            if p in R.PROPS and un not in R.PROPS[p].get("units", []):
                print("dead tag", p, un, c.fn, c.id); bad += 1
    for (su, sf, sc) in u.imports:
        for p, d in R.PROPS.items():
            if un in d.get("units", []) and su not in d.get("units", []):
                print("import without its proof", p, un, "%s:%s:%s" % (su, sf, sc)); bad += 1
    for f in u.functions:
        for p in f.get("props", []):
            if p in R.PROPS and un not in R.PROPS[p].get("units", []):
                print("dead fn tag", p, un, f["name"]); bad += 1
sys.exit(1 if bad else 0)
