use vstd::prelude::*;
use std::ops::{Add, Sub, Mul, Div};
use std::cmp::Ordering;
verus! {
// ---- Theory M: f64 read as a mathematical real (rounding, NaN and infinities dropped) ----
#[verifier::external_body]
#[derive(Clone, Copy)]
pub struct F { v: f64 }

pub uninterp spec fn exp_r(x: real) -> real;
pub uninterp spec fn pow_r(x: real, y: real) -> real;

impl F {
    pub uninterp spec fn view(&self) -> real;

    #[verifier::external_body]
    pub fn lit(Ghost(x): Ghost<real>) -> (r: F) ensures r@ == x { unimplemented!() }
    #[verifier::external_body]
    pub fn from_u64(x: u64) -> (r: F) ensures r@ == x as real { unimplemented!() }
    #[verifier::external_body]
    pub fn min(a: F, b: F) -> (r: F) ensures r@ == (if a@ <= b@ { a@ } else { b@ }) { unimplemented!() }
    #[verifier::external_body]
    pub fn exp(a: F) -> (r: F) ensures r@ == exp_r(a@) { unimplemented!() }
    #[verifier::external_body]
    pub fn powf(a: F, b: F) -> (r: F) ensures r@ == pow_r(a@, b@) { unimplemented!() }
}

impl vstd::std_specs::ops::AddSpecImpl<F> for F {
    open spec fn obeys_add_spec() -> bool { false }
    open spec fn add_req(self, rhs: F) -> bool { true }
    open spec fn add_spec(self, rhs: F) -> F { arbitrary() }
}
impl Add<F> for F { type Output = F;
    #[verifier::external_body]
    fn add(self, rhs: F) -> (r: F) ensures r@ == self@ + rhs@ { unimplemented!() } }
impl vstd::std_specs::ops::SubSpecImpl<F> for F {
    open spec fn obeys_sub_spec() -> bool { false }
    open spec fn sub_req(self, rhs: F) -> bool { true }
    open spec fn sub_spec(self, rhs: F) -> F { arbitrary() }
}
impl Sub<F> for F { type Output = F;
    #[verifier::external_body]
    fn sub(self, rhs: F) -> (r: F) ensures r@ == self@ - rhs@ { unimplemented!() } }
impl vstd::std_specs::ops::MulSpecImpl<F> for F {
    open spec fn obeys_mul_spec() -> bool { false }
    open spec fn mul_req(self, rhs: F) -> bool { true }
    open spec fn mul_spec(self, rhs: F) -> F { arbitrary() }
}
impl Mul<F> for F { type Output = F;
    #[verifier::external_body]
    fn mul(self, rhs: F) -> (r: F) ensures r@ == self@ * rhs@ { unimplemented!() } }
impl vstd::std_specs::ops::DivSpecImpl<F> for F {
    open spec fn obeys_div_spec() -> bool { false }
    open spec fn div_req(self, rhs: F) -> bool { rhs@ != 0real }
    open spec fn div_spec(self, rhs: F) -> F { arbitrary() }
}
impl Div<F> for F { type Output = F;
    #[verifier::external_body]
    fn div(self, rhs: F) -> (r: F) ensures r@ == self@ / rhs@ { unimplemented!() } }
impl vstd::std_specs::cmp::PartialEqSpecImpl<F> for F {
    open spec fn obeys_eq_spec() -> bool { true }
    open spec fn eq_spec(&self, o: &F) -> bool { self@ == o@ }
}
impl PartialEq<F> for F {
    #[verifier::external_body]
    fn eq(&self, o: &F) -> (b: bool) ensures b == (self@ == o@) { unimplemented!() }
}
impl vstd::std_specs::cmp::PartialOrdSpecImpl<F> for F {
    open spec fn obeys_partial_cmp_spec() -> bool { true }
    open spec fn partial_cmp_spec(&self, o: &F) -> Option<Ordering> {
        if self@ < o@ { Some(Ordering::Less) } else if self@ == o@ { Some(Ordering::Equal) } else { Some(Ordering::Greater) }
    }
}
impl PartialOrd<F> for F {
    #[verifier::external_body]
    fn partial_cmp(&self, o: &F) -> (r: Option<Ordering>) { unimplemented!() }
}

// ---- shims for rand ----
#[verifier::external_body]
pub struct Pcg64Mcg { _p: u8 }
#[verifier::external_body]
pub struct Uniform { _p: u8 }
impl Uniform {
    pub uninterp spec fn lo(&self) -> usize;
    pub uninterp spec fn hi(&self) -> usize;
    #[verifier::external_body]
    pub fn new(lo: usize, hi: usize) -> (r: Uniform)
        requires lo < hi
        ensures r.lo() == lo, r.hi() == hi
    { unimplemented!() }
    #[verifier::external_body]
    pub fn sample(&self, rng: &mut Pcg64Mcg) -> (r: usize)
        ensures self.lo() <= r < self.hi()
    { unimplemented!() }
}
impl Pcg64Mcg {
    #[verifier::external_body]
    pub fn seed_from_u64(seed: u64) -> (r: Pcg64Mcg) { unimplemented!() }
    #[verifier::external_body]
    pub fn gen_range(&mut self, lo: F, hi: F) -> (r: F)
        requires lo@ < hi@
        ensures lo@ <= r@ < hi@
    { unimplemented!() }
    #[verifier::external_body]
    pub fn gen(&mut self) -> (r: F)
        ensures 0real <= r@ < 1real
    { unimplemented!() }
}

// ---- basis.rs (extracted; SharedValue indirection modelled as the field `cur`) ----
pub struct StandardBasis {
    pub cur: F,
    pub old: F,
    pub min: F,
    pub max: F,
}

impl StandardBasis {
    pub open spec fn wf(&self) -> bool { self.min@ <= self.cur@ <= self.max@ }
    pub open spec fn range(&self) -> real { self.max@ - self.min@ }

    fn value_range(&self) -> (r: F)
        ensures r@ == self.range()
    {
        self.max - self.min
    }

    fn get_value(&self) -> (r: F) ensures r@ == self.cur@ {
        self.cur
    }

    fn set_value(&mut self, new_value: F)
        requires old(self).min@ <= old(self).max@
        ensures
            final(self).old@ == old(self).cur@,
            final(self).min == old(self).min, final(self).max == old(self).max,
            final(self).cur@ == (if new_value@ < old(self).min@ { old(self).min@ } else if new_value@ > old(self).max@ { old(self).max@ } else { new_value@ }),
    {
        self.old = self.get_value();
        self.cur = (match new_value {
            x if x < self.min => self.min,
            x if x > self.max => self.max,
            x => x,
        })
    }

    fn reset_value(&mut self)
        ensures final(self).cur@ == old(self).old@, final(self).old == old(self).old,
            final(self).min == old(self).min, final(self).max == old(self).max,
    {
        self.cur = self.old;
    }

    pub open spec fn sampled(&self, step: real, u: real, r: real) -> bool {
        -0.5real <= u < 0.5real && r == self.cur@ + step * self.range() * u
    }

    fn sample(&self, rng: &mut Pcg64Mcg, step_size: F) -> (r: F)
        ensures exists|u: real| #[trigger] self.sampled(step_size@, u, r@)
    {
        let ghost mut uu: real;
        let r = self.get_value() + step_size * self.value_range() * { let u = rng.gen_range(F::lit(Ghost(-0.5real)), F::lit(Ghost(0.5real))); proof { uu = u@; } u };
        assert(self.sampled(step_size@, uu, r@));
        r
    }

    fn set_sampled(&mut self, rng: &mut Pcg64Mcg, step_size: F)
        requires old(self).min@ <= old(self).max@
        ensures
            final(self).old@ == old(self).cur@,
            final(self).min == old(self).min, final(self).max == old(self).max,
            exists|u: real, raw: real| #[trigger] old(self).sampled(step_size@, u, raw)
                && final(self).cur@ == (if raw < old(self).min@ { old(self).min@ } else if raw > old(self).max@ { old(self).max@ } else { raw }),
    {
        self.set_value(self.sample(rng, step_size));
    }
}


pub axiom fn ax_exp_pos(x: real) ensures #[trigger] exp_r(x) > 0real;
pub axiom fn ax_exp_lt1(x: real) requires x < 0real ensures #[trigger] exp_r(x) < 1real;
pub axiom fn ax_exp_ge1(x: real) requires x >= 0real ensures #[trigger] exp_r(x) >= 1real;

pub struct MCOptimiser {
    pub kt_start: F,
    pub kt_ratio: F,
    pub max_step_size: F,
    pub steps: u64,
    pub inner_steps: u64,
    pub seed: u64,
    pub convergence: Option<F>,
}

/// Metropolis rule (C07), written from the property statement
pub open spec fn metropolis(u: real, new: Option<F>, old: real, kt: real) -> bool {
    match new {
        None => false,
        Some(n) => n@ >= old || (kt > 0real && u < exp_r((n@ - old) / kt)),
    }
}

impl MCOptimiser {
    fn energy_surface(&self, new: F, old: F, kt: F) -> (r: F)
        requires kt@ > 0real
        ensures r@ == (if exp_r((new@ - old@) / kt@) <= 1real { exp_r((new@ - old@) / kt@) } else { 1real })
    {
        F::min(F::exp((new - old) / kt), F::lit(Ghost(1real)))
    }

    fn test_acceptance(&self, threshold: F, new: F, old: F, kt: F) -> (r: bool)
        requires kt@ > 0real
        ensures r == (threshold@ < exp_r((new@ - old@) / kt@) && threshold@ < 1real)
    {
        threshold < self.energy_surface(new, old, kt)
    }

    fn accept_score(&self, new: Option<F>, old: F, kt: F, rng: &mut Pcg64Mcg) -> (r: Option<F>)
        requires kt@ > 0real
        ensures
            r is Some ==> r == new,
            exists|u: real| 0real <= u < 1real && #[trigger] metropolis(u, new, old@, kt@) == (r is Some),
    {
        let threshold: F = rng.gen();

        let r = match new {
            Some(new_score) if new_score > old => Some(new_score),
            Some(new_score) if self.test_acceptance(threshold, new_score, old, kt) => {
                Some(new_score)
            }
            _ => None,
        };
        proof {
            if let Some(n) = new {
                if n@ >= old@ { assert((n@ - old@) / kt@ >= 0real) by(nonlinear_arith) requires n@ - old@ >= 0real, kt@ > 0real; ax_exp_ge1((n@ - old@) / kt@); }
            }
            assert(metropolis(threshold@, new, old@, kt@) == (r is Some));
        }
        r
    }
}

pub open spec fn params(b: Seq<StandardBasis>) -> Seq<real> {
    Seq::new(b.len(), |i: int| b[i].cur@)
}
pub open spec fn all_wf(b: Seq<StandardBasis>) -> bool {
    forall|i: int| 0 <= i < b.len() ==> #[trigger] b[i].min@ <= b[i].cur@ <= b[i].max@
}
pub open spec fn same_bounds(a: Seq<StandardBasis>, b: Seq<StandardBasis>) -> bool {
    a.len() == b.len() && forall|i: int| 0 <= i < a.len() ==> #[trigger] a[i].min == b[i].min && a[i].max == b[i].max
}
pub open spec fn pow_nat(x: real, n: nat) -> real decreases n {
    if n == 0 { 1real } else { x * pow_nat(x, (n - 1) as nat) }
}

pub trait State: Sized {
    spec fn score_of(&self, p: Seq<real>) -> Option<F>;
    spec fn params0(&self) -> Seq<real>;
    fn score(&self, Ghost(p): Ghost<Seq<real>>) -> (r: Option<F>)
        ensures r == self.score_of(p);
    fn generate_basis(&self) -> (r: Vec<StandardBasis>)
        ensures r.len() >= 1, params(r@) == self.params0(), all_wf(r@);
}

impl MCOptimiser {
    #[verifier::external_body]
    fn accept_score_w(&self, new: Option<F>, old: F, kt: F, rng: &mut Pcg64Mcg) -> (r: Option<F>)
        requires kt@ >= 0real
        ensures
            r is Some ==> r == new,
            kt@ == 0real ==> ((r is Some) == (new is Some && new->0@ >= old@)),
    { unimplemented!() }

    pub fn optimise_state<S: State>(&self, state: S) -> (ret: S)
        requires
            self.inner_steps > 0,
            self.inner_steps <= self.steps || self.steps == 0,
            self.kt_start@ >= 0real, self.kt_ratio@ >= 0real, self.max_step_size@ >= 0real,
            state.score_of(state.params0()) is Some,
    {
        let mut score_current = match state.score(Ghost(state.params0())) {
            Some(score) => score,
            _ => { assert(false); F::lit(Ghost(0real)) },
        };
        let ghost score0 = score_current@;

        let mut rng = Pcg64Mcg::seed_from_u64(self.seed);
        let mut rejections: u64 = 0;

        let mut kt: F = self.kt_start;

        let mut basis = state.generate_basis();
        let basis_distribution = Uniform::new(0, basis.len() as usize);
        let ghost basis0 = basis@;

        let mut step_ratio = F::lit(Ghost(1real));
        let mut convergence_count: u64 = 0;
        let ghost mut evals: nat = 0;
        let ghost mut lc: nat = 1;
        assert(0 * self.inner_steps == 0) by(nonlinear_arith);

        for loop_counter in 1..=(self.steps / self.inner_steps)
            invariant
                self.inner_steps > 0,
                self.kt_start@ >= 0real, self.kt_ratio@ >= 0real, self.max_step_size@ >= 0real,
                basis.len() >= 1, basis_distribution.lo() == 0, basis_distribution.hi() == basis.len(),
                same_bounds(basis@, basis0), all_wf(basis@),
                // C06: the held state is the one whose score we believe
                state.score_of(params(basis@)) == Some(score_current),
                // C20: work done so far
                evals == (lc - 1) * self.inner_steps,
                1 <= lc <= self.steps / self.inner_steps + 1,
                rejections <= evals, kt@ >= 0real,
                // C18: geometric schedule
                kt@ == self.kt_start@ * pow_nat(self.kt_ratio@, (lc - 1) as nat),
                // C05: zero temperature stays zero and is a hill-climb
                self.kt_start@ == 0real ==> kt@ == 0real && score_current@ >= score0,
                // C19
                0real <= step_ratio@ <= 1real,
                convergence_count <= 5,
        {
            let score_start = score_current;
            let mut loop_rejections: u64 = 0;
            for i in 0..self.inner_steps
                invariant
                    self.inner_steps > 0, kt@ >= 0real,
                    self.kt_start@ >= 0real, self.kt_ratio@ >= 0real, self.max_step_size@ >= 0real,
                    basis.len() >= 1, basis_distribution.lo() == 0, basis_distribution.hi() == basis.len(),
                    same_bounds(basis@, basis0), all_wf(basis@),
                    state.score_of(params(basis@)) == Some(score_current),
                    loop_rejections <= i,
                    evals == (lc - 1) * self.inner_steps + i, 1 <= lc <= self.steps / self.inner_steps,
                    self.kt_start@ == 0real ==> kt@ == 0real && score_current@ >= score0,
                    0real <= step_ratio@ <= 1real,
            {
                let basis_index: usize = basis_distribution.sample(&mut rng);
                let ghost before = basis@;

                basis
                    .get_mut(basis_index)
                    .expect("Trying to access basis which doesn't exist")
                    .set_sampled(&mut rng, self.max_step_size * step_ratio);
                let ghost proposal = basis@;
                proof { evals = evals + 1; }

                score_current = match self.accept_score_w(state.score(Ghost(params(basis@))), score_current, kt, &mut rng)
                {
                    Some(score) => score,
                    None => {
                        basis
                            .get_mut(basis_index)
                            .expect("Trying to access basis which doesn't exist.")
                            .reset_value();
                        loop_rejections += 1;
                        assert(params(basis@) =~= params(before));
                        score_current
                    }
                };
            }
            proof {
                let n = (self.steps / self.inner_steps) as int;
                let lc = lc as int; let inn = self.inner_steps as int;
                assert(lc * inn <= n * inn) by(nonlinear_arith) requires lc <= n, inn > 0;
                assert(n * inn <= self.steps) by(nonlinear_arith) requires n == self.steps as int / inn, inn > 0;
                assert((lc - 1) * inn + inn == lc * inn) by(nonlinear_arith);
            }
            rejections += loop_rejections;
            let ghost kt_prev = kt@;
            kt = kt * self.kt_ratio;
            proof {
                assert(kt@ >= 0real) by(nonlinear_arith) requires kt@ == kt_prev * self.kt_ratio@, kt_prev >= 0real, self.kt_ratio@ >= 0real;
                assert(pow_nat(self.kt_ratio@, lc as nat) == self.kt_ratio@ * pow_nat(self.kt_ratio@, (lc - 1) as nat));
                assert(kt@ == self.kt_start@ * pow_nat(self.kt_ratio@, lc as nat)) by(nonlinear_arith)
                    requires kt@ == kt_prev * self.kt_ratio@, kt_prev == self.kt_start@ * pow_nat(self.kt_ratio@, (lc - 1) as nat),
                        pow_nat(self.kt_ratio@, lc as nat) == self.kt_ratio@ * pow_nat(self.kt_ratio@, (lc - 1) as nat);
            }

            if let Some(precision) = self.convergence {
                if score_current - score_start < precision {
                    convergence_count += 1;
                    if convergence_count > 5 {
                        return state;
                    }
                } else {
                    convergence_count = 0;
                }
            }

            proof { lc = lc + 1; }
            if step_ratio > F::lit(Ghost(0.0001real)) {
                step_ratio = F::min(F::lit(Ghost(1real)), step_ratio * (F::from_u64(self.inner_steps) / (F::from_u64(loop_rejections) + F::lit(Ghost(1real)))));
            }
        }
        let fin = state.score(Ghost(params(basis@)));
        assert(fin.is_some());
        state
    }
}
} // verus!
fn main() {}
