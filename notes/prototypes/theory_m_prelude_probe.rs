// ---- Theory M: f64 read as a mathematical real (rounding, NaN and infinities dropped) ----
#[verifier::external_body]
#[derive(Clone, Copy)]
pub struct F { v: f64 }

pub uninterp spec fn exp_r(x: real) -> real;
pub uninterp spec fn pow_r(x: real, y: real) -> real;

impl F {
    pub uninterp spec fn view(&self) -> real;

    #[verifier::external_body]
    pub fn lit(Ghost(x): Ghost<real>) -> (r: F) ensures r@ == x { unimplemented!() }
    #[verifier::external_body]
    pub fn from_u64(x: u64) -> (r: F) ensures r@ == x as real { unimplemented!() }
    #[verifier::external_body]
    pub fn min(a: F, b: F) -> (r: F) ensures r@ == (if a@ <= b@ { a@ } else { b@ }) { unimplemented!() }
    #[verifier::external_body]
    pub fn exp(a: F) -> (r: F) ensures r@ == exp_r(a@) { unimplemented!() }
    #[verifier::external_body]
    pub fn powf(a: F, b: F) -> (r: F) ensures r@ == pow_r(a@, b@) { unimplemented!() }
}

impl vstd::std_specs::ops::AddSpecImpl<F> for F {
    open spec fn obeys_add_spec() -> bool { false }
    open spec fn add_req(self, rhs: F) -> bool { true }
    open spec fn add_spec(self, rhs: F) -> F { arbitrary() }
}
impl Add<F> for F { type Output = F;
    #[verifier::external_body]
    fn add(self, rhs: F) -> (r: F) ensures r@ == self@ + rhs@ { unimplemented!() } }
impl vstd::std_specs::ops::SubSpecImpl<F> for F {
    open spec fn obeys_sub_spec() -> bool { false }
    open spec fn sub_req(self, rhs: F) -> bool { true }
    open spec fn sub_spec(self, rhs: F) -> F { arbitrary() }
}
impl Sub<F> for F { type Output = F;
    #[verifier::external_body]
    fn sub(self, rhs: F) -> (r: F) ensures r@ == self@ - rhs@ { unimplemented!() } }
impl vstd::std_specs::ops::MulSpecImpl<F> for F {
    open spec fn obeys_mul_spec() -> bool { false }
    open spec fn mul_req(self, rhs: F) -> bool { true }
    open spec fn mul_spec(self, rhs: F) -> F { arbitrary() }
}
impl Mul<F> for F { type Output = F;
    #[verifier::external_body]
    fn mul(self, rhs: F) -> (r: F) ensures r@ == self@ * rhs@ { unimplemented!() } }
impl vstd::std_specs::ops::DivSpecImpl<F> for F {
    open spec fn obeys_div_spec() -> bool { false }
    open spec fn div_req(self, rhs: F) -> bool { rhs@ != 0real }
    open spec fn div_spec(self, rhs: F) -> F { arbitrary() }
}
impl Div<F> for F { type Output = F;
    #[verifier::external_body]
    fn div(self, rhs: F) -> (r: F) ensures r@ == self@ / rhs@ { unimplemented!() } }
impl vstd::std_specs::cmp::PartialEqSpecImpl<F> for F {
    open spec fn obeys_eq_spec() -> bool { true }
    open spec fn eq_spec(&self, o: &F) -> bool { self@ == o@ }
}
impl PartialEq<F> for F {
    #[verifier::external_body]
    fn eq(&self, o: &F) -> (b: bool) ensures b == (self@ == o@) { unimplemented!() }
}
impl vstd::std_specs::cmp::PartialOrdSpecImpl<F> for F {
    open spec fn obeys_partial_cmp_spec() -> bool { true }
    open spec fn partial_cmp_spec(&self, o: &F) -> Option<Ordering> {
        if self@ < o@ { Some(Ordering::Less) } else if self@ == o@ { Some(Ordering::Equal) } else { Some(Ordering::Greater) }
    }
}
impl PartialOrd<F> for F {
    #[verifier::external_body]
    fn partial_cmp(&self, o: &F) -> (r: Option<Ordering>) { unimplemented!() }
}
