use vstd::prelude::*;
use std::ops::{Add, Sub, Mul, Div, Neg};
use std::cmp::Ordering;
verus! {

#[verifier::external_body]
#[derive(Clone, Copy)]
pub struct R { v: f64 }

impl R {
    pub uninterp spec fn view(&self) -> real;

    #[verifier::external_body]
    pub fn lit(Ghost(x): Ghost<real>, v: f64) -> (r: R)
        ensures r@ == x
    { R { v } }
}

impl vstd::std_specs::ops::AddSpecImpl<R> for R {
    open spec fn obeys_add_spec() -> bool { false }
    open spec fn add_req(self, rhs: R) -> bool { true }
    open spec fn add_spec(self, rhs: R) -> R { arbitrary() }
}
impl Add<R> for R { type Output = R;
    #[verifier::external_body]
    fn add(self, rhs: R) -> (r: R) ensures r@ == self@ + rhs@ { R { v: self.v + rhs.v } } }

impl vstd::std_specs::ops::SubSpecImpl<R> for R {
    open spec fn obeys_sub_spec() -> bool { false }
    open spec fn sub_req(self, rhs: R) -> bool { true }
    open spec fn sub_spec(self, rhs: R) -> R { arbitrary() }
}
impl Sub<R> for R { type Output = R;
    #[verifier::external_body]
    fn sub(self, rhs: R) -> (r: R) ensures r@ == self@ - rhs@ { R { v: self.v - rhs.v } } }

impl vstd::std_specs::ops::MulSpecImpl<R> for R {
    open spec fn obeys_mul_spec() -> bool { false }
    open spec fn mul_req(self, rhs: R) -> bool { true }
    open spec fn mul_spec(self, rhs: R) -> R { arbitrary() }
}
impl Mul<R> for R { type Output = R;
    #[verifier::external_body]
    fn mul(self, rhs: R) -> (r: R) ensures r@ == self@ * rhs@ { R { v: self.v * rhs.v } } }

impl vstd::std_specs::ops::DivSpecImpl<R> for R {
    open spec fn obeys_div_spec() -> bool { false }
    open spec fn div_req(self, rhs: R) -> bool { rhs@ != 0real }
    open spec fn div_spec(self, rhs: R) -> R { arbitrary() }
}
impl Div<R> for R { type Output = R;
    #[verifier::external_body]
    fn div(self, rhs: R) -> (r: R) ensures r@ == self@ / rhs@ { R { v: self.v / rhs.v } } }

impl vstd::std_specs::cmp::PartialEqSpecImpl<R> for R {
    open spec fn obeys_eq_spec() -> bool { true }
    open spec fn eq_spec(&self, o: &R) -> bool { self@ == o@ }
}
impl PartialEq<R> for R {
    #[verifier::external_body]
    fn eq(&self, o: &R) -> (b: bool) ensures b == (self@ == o@) { self.v == o.v }
}
impl vstd::std_specs::cmp::PartialOrdSpecImpl<R> for R {
    open spec fn obeys_partial_cmp_spec() -> bool { true }
    open spec fn partial_cmp_spec(&self, o: &R) -> Option<Ordering> {
        if self@ < o@ { Some(Ordering::Less) } else if self@ == o@ { Some(Ordering::Equal) } else { Some(Ordering::Greater) }
    }
}
impl PartialOrd<R> for R {
    #[verifier::external_body]
    fn partial_cmp(&self, o: &R) -> (r: Option<Ordering>)
    { self.v.partial_cmp(&o.v) }
}

pub struct Point2 { pub x: R, pub y: R }
pub struct Line2 { pub start: Point2, pub end: Point2 }

pub open spec fn cross(ax: real, ay: real, bx: real, by: real) -> real { ax * by - ay * bx }

impl Line2 {
    pub open spec fn sdx(&self) -> real { self.end.x@ - self.start.x@ }
    pub open spec fn sdy(&self) -> real { self.end.y@ - self.start.y@ }

    pub fn dx(&self) -> (r: R) ensures r@ == self.sdx() { self.end.x - self.start.x }
    pub fn dy(&self) -> (r: R) ensures r@ == self.sdy() { self.end.y - self.start.y }

    pub open spec fn meet(&self, other: &Line2, ua: real, ub: real) -> bool {
        0real <= ua <= 1real && 0real <= ub <= 1real
            && self.start.x@ + ua * self.sdx() == other.start.x@ + ub * other.sdx()
            && self.start.y@ + ua * self.sdy() == other.start.y@ + ub * other.sdy()
    }
    /// geometric meaning: the two closed segments are non-parallel and share a point
    pub open spec fn crosses(&self, other: &Line2) -> bool {
        cross(self.sdx(), self.sdy(), other.sdx(), other.sdy()) != 0real
        && exists|ua: real, ub: real| #[trigger] self.meet(other, ua, ub)
    }

    pub open spec fn den(&self, o: &Line2) -> real { o.sdy() * self.sdx() - o.sdx() * self.sdy() }
    pub open spec fn ua_num(&self, o: &Line2) -> real { o.sdx() * (self.start.y@ - o.start.y@) - o.sdy() * (self.start.x@ - o.start.x@) }
    pub open spec fn ub_num(&self, o: &Line2) -> real { self.sdx() * (self.start.y@ - o.start.y@) - self.sdy() * (self.start.x@ - o.start.x@) }
    pub open spec fn alg_crosses(&self, o: &Line2) -> bool {
        self.den(o) != 0real && {
            let ua = self.ua_num(o) / self.den(o);
            let ub = self.ub_num(o) / self.den(o);
            0real <= ua <= 1real && 0real <= ub <= 1real
        }
    }

    pub proof fn lemma_div(n: real, d: real)
        requires d != 0real
        ensures (n / d) * d == n
    {
        assert((n / d) * d == n) by(nonlinear_arith) requires d != 0real;
    }

    pub proof fn lemma_alg_is_geometric(&self, o: &Line2)
        ensures self.alg_crosses(o) == self.crosses(o)
    {
        let d = self.den(o);
        let (sx, sy, dx, dy) = (self.start.x@, self.start.y@, self.sdx(), self.sdy());
        let (tx, ty, ex, ey) = (o.start.x@, o.start.y@, o.sdx(), o.sdy());
        assert(d == cross(dx, dy, ex, ey)) by(nonlinear_arith)
            requires d == ey * dx - ex * dy;
        if d != 0real {
            let na = self.ua_num(o);
            let nb = self.ub_num(o);
            let ua = na / d;
            let ub = nb / d;
            Self::lemma_div(na, d);
            Self::lemma_div(nb, d);
            // the algebraic solution lies on both lines (multiplied through by d)
            assert((sx + ua * dx) * d == (tx + ub * ex) * d && (sy + ua * dy) * d == (ty + ub * ey) * d) by(nonlinear_arith)
                requires d == ey * dx - ex * dy,
                    ua * d == ex * (sy - ty) - ey * (sx - tx),
                    ub * d == dx * (sy - ty) - dy * (sx - tx);
            assert(sx + ua * dx == tx + ub * ex) by(nonlinear_arith)
                requires d != 0real, (sx + ua * dx) * d == (tx + ub * ex) * d;
            assert(sy + ua * dy == ty + ub * ey) by(nonlinear_arith)
                requires d != 0real, (sy + ua * dy) * d == (ty + ub * ey) * d;
            if self.alg_crosses(o) {
                assert(self.meet(o, ua, ub));
            }
            if self.crosses(o) {
                let (va, vb) = choose|va: real, vb: real| #[trigger] self.meet(o, va, vb);
                assert((va - ua) * d == 0real && (vb - ub) * d == 0real) by(nonlinear_arith)
                    requires d == ey * dx - ex * dy,
                        sx + ua * dx == tx + ub * ex, sy + ua * dy == ty + ub * ey,
                        sx + va * dx == tx + vb * ex, sy + va * dy == ty + vb * ey;
                assert(va == ua && vb == ub) by(nonlinear_arith)
                    requires d != 0real, (va - ua) * d == 0real, (vb - ub) * d == 0real;
            }
        }
    }

    fn intersects(&self, other: &Self) -> (r: bool)
        ensures r == self.alg_crosses(other)
    {
        let u_b = other.dy() * self.dx() - other.dx() * self.dy();
        if u_b == R::lit(Ghost(0real), 0.) {
            return false;
        }

        let ua_t = other.dx() * (self.start.y - other.start.y)
            - other.dy() * (self.start.x - other.start.x);
        let ub_t =
            self.dx() * (self.start.y - other.start.y) - self.dy() * (self.start.x - other.start.x);

        let ua = ua_t / u_b;
        let ub = ub_t / u_b;
        if R::lit(Ghost(0real), 0.) <= ua && ua <= R::lit(Ghost(1real), 1.) && R::lit(Ghost(0real), 0.) <= ub && ub <= R::lit(Ghost(1real), 1.) {
            return true;
        }
        false
    }
}

} // verus!
fn main() {}
