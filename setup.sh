#!/bin/sh
# Run once after a fresh restore, offline.  Nothing is downloaded; the only thing "built" is a warm
# cargo-kani dependency cache under /verif/.cache (checks rebuild the packing crate itself from
# /repo's working tree on every run and work without this cache, only slower).
set -e
cd "$(dirname "$0")"
verus --version >/dev/null
cargo kani --version >/dev/null
z3 --version >/dev/null
python3 -c "import json,re,subprocess" 
mkdir -p .cache evidence replays
python3 - <<'PY'
import sys, os
sys.path.insert(0, os.getcwd())
from vx import kani
r = kani.run(os.environ.get("VERIF_REPO", "/repo"), ["k_opt_draw_range"], jobs=4, timeout=1500)
print("kani warm-up:", {k: v["status"] for k, v in r.harness.items()}, r.tool_errors)
PY
echo setup ok
