#![allow(unused_imports, dead_code, unused_variables, unused_mut, unused_parens, unused_assignments)]
#![verifier::loop_isolation(false)]
use vstd::prelude::*;
use std::ops::{Add, Sub, Mul, Div, Neg};
use std::cmp::Ordering;
verus! {
