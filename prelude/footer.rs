} // verus!
fn main() {}
