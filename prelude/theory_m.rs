// ======== Theory M: f64 read as a mathematical real (rounding, NaN, infinities dropped) ========
// TRUSTED: every external_body below is an assumed contract on machine arithmetic / libm.
#[verifier::external_body]
#[derive(Clone, Copy)]
pub struct F { v: f64 }

pub uninterp spec fn exp_r(x: real) -> real;
pub uninterp spec fn pow_r(x: real, y: real) -> real;
pub uninterp spec fn sin_r(x: real) -> real;
pub uninterp spec fn cos_r(x: real) -> real;
pub uninterp spec fn sqrt_r(x: real) -> real;
pub uninterp spec fn acos_r(x: real) -> real;
pub uninterp spec fn asin_r(x: real) -> real;
pub uninterp spec fn atan_r(x: real) -> real;
pub uninterp spec fn atan2_r(y: real, x: real) -> real;
pub uninterp spec fn tan_r(x: real) -> real;
pub uninterp spec fn ln_r(x: real) -> real;
pub uninterp spec fn pi_r() -> real;
pub uninterp spec fn floor_r(x: real) -> int;
/// std::f64::MIN as a real (a large negative number)
pub uninterp spec fn f64_min_r() -> real;
pub uninterp spec fn ceil_r(x: real) -> int;
/// x % y with the sign of x (Rust's f64 `%`), as a real function
pub uninterp spec fn fmod_r(x: real, y: real) -> real;
/// `+0.0` (as opposed to `-0.0`): the only place Theory M keeps a bit of IEEE information
pub uninterp spec fn pos_zero(x: F) -> bool;
/// unspecified result of x / 0
pub uninterp spec fn div0_r(x: real) -> real;

pub open spec fn min_r(a: real, b: real) -> real { if a <= b { a } else { b } }
pub open spec fn max_r(a: real, b: real) -> real { if a >= b { a } else { b } }
pub open spec fn abs_r(a: real) -> real { if a >= 0real { a } else { -a } }
pub open spec fn clamp_r(x: real, lo: real, hi: real) -> real { if x < lo { lo } else if x > hi { hi } else { x } }
pub open spec fn sq(a: real) -> real { a * a }
pub open spec fn div_r(a: real, b: real) -> real { if b != 0real { a / b } else { div0_r(a) } }
pub open spec fn powi_r(x: real, n: int) -> real
    decreases n
{
    if n <= 0 { 1real }
    else if n == 1 { x }
    else if n == 2 { x * x }
    else if n == 3 { x * x * x }
    else if n == 6 { (x * x * x) * (x * x * x) }
    else if n == 12 { ((x * x * x) * (x * x * x)) * ((x * x * x) * (x * x * x)) }
    else { x * powi_r(x, n - 1) }
}

impl F {
    pub uninterp spec fn view(&self) -> real;

    #[verifier::external_body]
    pub fn lit(Ghost(x): Ghost<real>) -> (r: F) ensures r@ == x, x == 0real ==> pos_zero(r) { unimplemented!() }
    #[verifier::external_body]
    pub fn pi() -> (r: F) ensures r@ == pi_r() { unimplemented!() }
    /// f64::EPSILON: a small positive number
    #[verifier::external_body]
    pub fn epsilon() -> (r: F) ensures 0real < r@ < 0.000000000000001real { unimplemented!() }
    /// f32::EPSILON widened to f64: 2^-23 exactly
    #[verifier::external_body]
    pub fn epsilon32() -> (r: F) ensures r@ == 0.00000011920928955078125real { unimplemented!() }
    #[verifier::external_body]
    pub fn min_value() -> (r: F) ensures r@ == f64_min_r(), r@ < -1000000000000real { unimplemented!() }
    #[verifier::external_body]
    pub fn from_u64(x: u64) -> (r: F) ensures r@ == x as real { unimplemented!() }
    #[verifier::external_body]
    pub fn from_usize(x: usize) -> (r: F) ensures r@ == x as real { unimplemented!() }
    #[verifier::external_body]
    pub fn from_i64(x: i64) -> (r: F) ensures r@ == x as real { unimplemented!() }
    #[verifier::external_body]
    pub fn min(self, b: F) -> (r: F) ensures r@ == min_r(self@, b@) { unimplemented!() }
    #[verifier::external_body]
    pub fn max(self, b: F) -> (r: F) ensures r@ == max_r(self@, b@) { unimplemented!() }
    #[verifier::external_body]
    pub fn exp(self) -> (r: F) ensures r@ == exp_r(self@) { unimplemented!() }
    #[verifier::external_body]
    pub fn powf(self, b: F) -> (r: F) ensures r@ == pow_r(self@, b@) { unimplemented!() }
    #[verifier::external_body]
    pub fn abs(self) -> (r: F) ensures r@ == abs_r(self@) { unimplemented!() }
    #[verifier::external_body]
    pub fn sin(self) -> (r: F) ensures r@ == sin_r(self@) { unimplemented!() }
    #[verifier::external_body]
    pub fn cos(self) -> (r: F) ensures r@ == cos_r(self@) { unimplemented!() }
    #[verifier::external_body]
    pub fn sqrt(self) -> (r: F) ensures r@ == sqrt_r(self@) { unimplemented!() }
    #[verifier::external_body]
    pub fn acos(self) -> (r: F) ensures r@ == acos_r(self@) { unimplemented!() }
    #[verifier::external_body]
    pub fn powi(self, n: i32) -> (r: F) ensures r@ == powi_r(self@, n as int) { unimplemented!() }
    /// `x.ceil() as i64` (saturation of the cast is dropped: |x| < 2^63 assumed)
    #[verifier::external_body]
    pub fn ceil_i64(x: F) -> (r: i64) ensures r as int == ceil_r(x@), (r as real) >= x@, (r as real) - 1real < x@ { unimplemented!() }
    /// `x.floor() as i64`
    #[verifier::external_body]
    pub fn floor_i64(x: F) -> (r: i64) ensures (r as real) <= x@, (r as real) + 1real > x@ { unimplemented!() }
    // further libm functions: uninterpreted (no property relies on them; code that starts using one no longer matches
    // a contract written with the functions above, which is then reported as a failed obligation rather than a tool error)
    #[verifier::external_body]
    pub fn asin(self) -> (r: F) ensures r@ == asin_r(self@) { unimplemented!() }
    #[verifier::external_body]
    pub fn atan(self) -> (r: F) ensures r@ == atan_r(self@) { unimplemented!() }
    #[verifier::external_body]
    pub fn atan2(self, o: F) -> (r: F) ensures r@ == atan2_r(self@, o@) { unimplemented!() }
    #[verifier::external_body]
    pub fn tan(self) -> (r: F) ensures r@ == tan_r(self@) { unimplemented!() }
    #[verifier::external_body]
    pub fn ln(self) -> (r: F) ensures r@ == ln_r(self@) { unimplemented!() }
    #[verifier::external_body]
    pub fn hypot(self, o: F) -> (r: F) ensures r@ == sqrt_r(self@ * self@ + o@ * o@) { unimplemented!() }
    #[verifier::external_body]
    pub fn mul_add(self, a: F, b: F) -> (r: F) ensures r@ == self@ * a@ + b@ { unimplemented!() }
    #[verifier::external_body]
    pub fn recip(self) -> (r: F) ensures r@ == div_r(1real, self@) { unimplemented!() }
    /// Theory M has no NaN or infinities
    #[verifier::external_body]
    pub fn is_finite(self) -> (r: bool) ensures r { unimplemented!() }
    #[verifier::external_body]
    pub fn is_nan(self) -> (r: bool) ensures !r { unimplemented!() }
    #[verifier::external_body]
    pub fn is_infinite(self) -> (r: bool) ensures !r { unimplemented!() }
    /// neither zero, subnormal, infinite nor NaN: under Theory M (no subnormals, infinities, NaN) exactly "non-zero"
    #[verifier::external_body]
    pub fn is_normal(self) -> (r: bool) ensures r == (self@ != 0real) { unimplemented!() }
    /// f64::clamp panics when lo > hi
    #[verifier::external_body]
    pub fn clamp(self, lo: F, hi: F) -> (r: F) requires lo@ <= hi@ ensures r@ == clamp_r(self@, lo@, hi@) { unimplemented!() }
    /// rounding functions: uninterpreted beyond being functions (no property relies on them)
    #[verifier::external_body]
    pub fn round(self) -> (r: F) { unimplemented!() }
    #[verifier::external_body]
    pub fn floor(self) -> (r: F) ensures r@ <= self@ < r@ + 1real { unimplemented!() }
    #[verifier::external_body]
    pub fn ceil(self) -> (r: F) ensures r@ - 1real < self@ <= r@ { unimplemented!() }
    #[verifier::external_body]
    pub fn trunc(self) -> (r: F) { unimplemented!() }
    #[verifier::external_body]
    pub fn signum(self) -> (r: F) { unimplemented!() }
    #[verifier::external_body]
    pub fn to_radians(self) -> (r: F) ensures r@ == self@ * pi_r() / 180real { unimplemented!() }
}

impl vstd::std_specs::ops::AddSpecImpl<F> for F {
    open spec fn obeys_add_spec() -> bool { false }
    open spec fn add_req(self, rhs: F) -> bool { true }
    open spec fn add_spec(self, rhs: F) -> F { arbitrary() }
}
impl Add<F> for F { type Output = F;
    #[verifier::external_body]
    fn add(self, rhs: F) -> (r: F) ensures r@ == self@ + rhs@ { unimplemented!() } }
impl vstd::std_specs::ops::SubSpecImpl<F> for F {
    open spec fn obeys_sub_spec() -> bool { false }
    open spec fn sub_req(self, rhs: F) -> bool { true }
    open spec fn sub_spec(self, rhs: F) -> F { arbitrary() }
}
impl Sub<F> for F { type Output = F;
    #[verifier::external_body]
    fn sub(self, rhs: F) -> (r: F) ensures r@ == self@ - rhs@ { unimplemented!() } }
impl vstd::std_specs::ops::MulSpecImpl<F> for F {
    open spec fn obeys_mul_spec() -> bool { false }
    open spec fn mul_req(self, rhs: F) -> bool { true }
    open spec fn mul_spec(self, rhs: F) -> F { arbitrary() }
}
impl Mul<F> for F { type Output = F;
    #[verifier::external_body]
    fn mul(self, rhs: F) -> (r: F) ensures r@ == self@ * rhs@,
        // consequences of real arithmetic (proved below in lemma_mul_facts), stated here so that proofs do not depend on hints
        (self@ >= 0real && rhs@ >= 0real) ==> r@ >= 0real,
        (self@ == 0real || rhs@ == 0real) ==> r@ == 0real,
        (self@ >= 0real && 0real <= rhs@ <= 1real) ==> r@ <= self@,
        (rhs@ >= 0real && 0real <= self@ <= 1real) ==> r@ <= rhs@,
    { unimplemented!() } }
impl<'a> vstd::std_specs::ops::MulSpecImpl<F> for &'a F {
    open spec fn obeys_mul_spec() -> bool { false }
    open spec fn mul_req(self, rhs: F) -> bool { true }
    open spec fn mul_spec(self, rhs: F) -> F { arbitrary() }
}
impl<'a> Mul<F> for &'a F { type Output = F;
    #[verifier::external_body]
    fn mul(self, rhs: F) -> (r: F) ensures r@ == self@ * rhs@ { unimplemented!() } }
// Division never traps (like the hardware); the quotient by zero is unspecified (div0_r).
impl vstd::std_specs::ops::DivSpecImpl<F> for F {
    open spec fn obeys_div_spec() -> bool { false }
    open spec fn div_req(self, rhs: F) -> bool { true }
    open spec fn div_spec(self, rhs: F) -> F { arbitrary() }
}
impl Div<F> for F { type Output = F;
    #[verifier::external_body]
    fn div(self, rhs: F) -> (r: F) ensures r@ == div_r(self@, rhs@),
        (self@ >= 0real && rhs@ > 0real) ==> r@ >= 0real,   // proved in lemma_mul_facts
    { unimplemented!() } }
impl vstd::std_specs::ops::NegSpecImpl for F {
    open spec fn obeys_neg_spec() -> bool { false }
    open spec fn neg_req(self) -> bool { true }
    open spec fn neg_spec(self) -> F { arbitrary() }
}
impl Neg for F { type Output = F;
    #[verifier::external_body]
    fn neg(self) -> (r: F) ensures r@ == -self@ { unimplemented!() } }
impl vstd::std_specs::cmp::PartialEqSpecImpl<F> for F {
    open spec fn obeys_eq_spec() -> bool { true }
    open spec fn eq_spec(&self, o: &F) -> bool { self@ == o@ }
}
impl PartialEq<F> for F {
    #[verifier::external_body]
    fn eq(&self, o: &F) -> (b: bool) ensures b == (self@ == o@) { unimplemented!() }
}
impl vstd::std_specs::cmp::PartialOrdSpecImpl<F> for F {
    open spec fn obeys_partial_cmp_spec() -> bool { true }
    open spec fn partial_cmp_spec(&self, o: &F) -> Option<Ordering> {
        if self@ < o@ { Some(Ordering::Less) } else if self@ == o@ { Some(Ordering::Equal) } else { Some(Ordering::Greater) }
    }
}
impl PartialOrd<F> for F {
    #[verifier::external_body]
    fn partial_cmp(&self, o: &F) -> (r: Option<Ordering>) { unimplemented!() }
}

/// the sign facts attached to `*` and `/` above are theorems of real arithmetic, not extra assumptions
pub proof fn lemma_mul_facts(a: real, b: real)
    ensures (a >= 0real && b >= 0real) ==> a * b >= 0real,
        (a == 0real || b == 0real) ==> a * b == 0real,
        (a >= 0real && 0real <= b <= 1real) ==> a * b <= a,
        (b >= 0real && 0real <= a <= 1real) ==> a * b <= b,
        (a >= 0real && b > 0real) ==> a / b >= 0real,
{
    assert((a >= 0real && b >= 0real) ==> a * b >= 0real) by(nonlinear_arith);
    assert((a == 0real || b == 0real) ==> a * b == 0real) by(nonlinear_arith);
    assert((a >= 0real && 0real <= b <= 1real) ==> a * b <= a) by(nonlinear_arith);
    assert((b >= 0real && 0real <= a <= 1real) ==> a * b <= b) by(nonlinear_arith);
    assert((a >= 0real && b > 0real) ==> a / b >= 0real) by(nonlinear_arith);
}

/// `panic!` in the source: reaching it is a proof obligation (sound: can never be called)
#[verifier::external_body]
pub fn vpanic<T>() -> (r: T) requires false { unimplemented!() }
/// `assert!(c)` in the source: c is a proof obligation
pub fn vassert(c: bool) requires c {}
impl vstd::std_specs::ops::RemSpecImpl<F> for F {
    open spec fn obeys_rem_spec() -> bool { false }
    open spec fn rem_req(self, rhs: F) -> bool { true }
    open spec fn rem_spec(self, rhs: F) -> F { arbitrary() }
}
impl std::ops::Rem<F> for F { type Output = F;
    #[verifier::external_body]
    fn rem(self, rhs: F) -> (r: F) ensures r@ == fmod_r(self@, rhs@) { unimplemented!() } }
/// Rust's f64 `%` is C fmod: x = k*y + fmod(x,y) with integer k, result has the sign of x and |result| < y
pub axiom fn ax_fmod(x: real, y: real)
    requires y > 0real
    ensures exists|k: int| #[trigger] fmod_k(x, y, k),
        x >= 0real ==> 0real <= fmod_r(x, y) < y,
        x <= 0real ==> -y < fmod_r(x, y) <= 0real;
pub open spec fn fmod_k(x: real, y: real, k: int) -> bool { x == (k as real) * y + fmod_r(x, y) }

// `vec![..]` (rule R19)
#[verifier::external_body]
pub fn vvec1<T>(a: T) -> (r: Vec<T>) ensures r@ =~= seq![a] { unimplemented!() }
#[verifier::external_body]
pub fn vvec2<T>(a: T, b: T) -> (r: Vec<T>) ensures r@ =~= seq![a, b] { unimplemented!() }
#[verifier::external_body]
pub fn vvec3<T>(a: T, b: T, c: T) -> (r: Vec<T>) ensures r@ =~= seq![a, b, c] { unimplemented!() }
#[verifier::external_body]
pub fn vvec4<T>(a: T, b: T, c: T, d: T) -> (r: Vec<T>) ensures r@ =~= seq![a, b, c, d] { unimplemented!() }
