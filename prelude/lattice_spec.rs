// ======== shared lattice specifications (single source for units geom and state) ========
// A clause proved in one unit and used as a hypothesis in another is stated with the predicates of THIS file in both places,
// so the hand-over between units is a comparison of names, not of restated formulas.
/// the crate's transforms are affine: bottom row (0, 0, w) with w = 1 (Transform2::new, identity) or
/// w = 0 (from_operations leaves the row at zero, and so do the products g_k * T); for both nalgebra's Transform*Point does not divide
pub open spec fn wf_t(t: Transform2) -> bool {
    t.0.m.m20@ == 0real && t.0.m.m21@ == 0real && (t.0.m.m22@ == 0real || t.0.m.m22@ == 1real)
}
pub open spec fn same_lin(a: Transform2, b: Transform2) -> bool {
    a.0.m.m00 == b.0.m.m00 && a.0.m.m01 == b.0.m.m01 && a.0.m.m10 == b.0.m.m10 && a.0.m.m11 == b.0.m.m11
    && a.0.m.m20 == b.0.m.m20 && a.0.m.m21 == b.0.m.m21 && a.0.m.m22 == b.0.m.m22
}
// lattice vectors of the property statement: A = (a, 0), B = (b cos t, b sin t)
pub open spec fn lat_a(c: Cell2) -> real { c.length.v@ }
pub open spec fn lat_b(c: Cell2) -> real { c.length.v@ * c.ratio.v@ }
pub open spec fn lat_ax(c: Cell2) -> real { lat_a(c) }
pub open spec fn lat_ay(c: Cell2) -> real { 0real }
pub open spec fn lat_bx(c: Cell2) -> real { lat_b(c) * cos_r(c.angle.v@) }
pub open spec fn lat_by(c: Cell2) -> real { lat_b(c) * sin_r(c.angle.v@) }
/// Cartesian image of fractional (x, y): x*A + y*B
pub open spec fn cart_x(c: Cell2, x: real, y: real) -> real { x * lat_ax(c) + y * lat_bx(c) }
pub open spec fn cart_y(c: Cell2, x: real, y: real) -> real { x * lat_ay(c) + y * lat_by(c) }
/// C14: r is the placement t translated by n*A + m*B, orientation (and bottom row) unchanged
pub open spec fn is_image(c: Cell2, t: Transform2, n: int, m: int, r: Transform2) -> bool {
    same_lin(r, t)
    && r.0.m.m02@ == cart_x(c, t.0.m.m02@, t.0.m.m12@) + (n as real) * lat_ax(c) + (m as real) * lat_bx(c)
    && r.0.m.m12@ == cart_y(c, t.0.m.m02@, t.0.m.m12@) + (n as real) * lat_ay(c) + (m as real) * lat_by(c)
}
/// C14: r is the Cartesian copy of the fractional placement t (Cell2::to_cartesian_isometry): linear part kept, translation mapped by the cell
pub open spec fn is_cart(c: Cell2, t: Transform2, r: Transform2) -> bool {
    same_lin(r, t) && (wf_t(t) ==> (r.0.m.m02@ == cart_x(c, t.0.m.m02@, t.0.m.m12@) && r.0.m.m12@ == cart_y(c, t.0.m.m02@, t.0.m.m12@)))
}
/// C15: a placement inside the canonical cell [-1/2, 1/2)^2
pub open spec fn in_cell(t: Transform2) -> bool {
    wf_t(t) && -0.5real <= t.0.m.m02@ < 0.5real && -0.5real <= t.0.m.m12@ < 0.5real
}
