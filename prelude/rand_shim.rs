// ======== rand / rand_pcg shim: ASSUMED contracts on the dependency (trusted) ========
#[verifier::external_body]
pub struct Pcg64Mcg { _p: u8 }
#[verifier::external_body]
pub struct Uniform { _p: u8 }
/// abstract generator state reached from seed `s` after `n` draws
pub uninterp spec fn rng_state(s: u64, n: nat) -> int;
impl Uniform {
    pub uninterp spec fn lo(&self) -> usize;
    pub uninterp spec fn hi(&self) -> usize;
    /// rand 0.7 `Uniform::new(lo, hi)` panics unless lo < hi
    #[verifier::external_body]
    pub fn new(lo: usize, hi: usize) -> (r: Uniform)
        requires lo < hi
        ensures r.lo() == lo, r.hi() == hi
    { unimplemented!() }
    #[verifier::external_body]
    pub fn sample(&self, rng: &mut Pcg64Mcg) -> (r: usize)
        ensures self.lo() <= r < self.hi(),
            final(rng).seeded() == old(rng).seeded(), final(rng).seed() == old(rng).seed(),
            final(rng).draws() == old(rng).draws() + 1,
    { unimplemented!() }
}
impl Pcg64Mcg {
    pub uninterp spec fn seeded(&self) -> bool;
    pub uninterp spec fn seed(&self) -> u64;
    pub uninterp spec fn draws(&self) -> nat;
    /// the float most recently drawn (ghost)
    pub uninterp spec fn last(&self) -> real;
    #[verifier::external_body]
    pub fn seed_from_u64(seed: u64) -> (r: Pcg64Mcg)
        ensures r.seeded(), r.seed() == seed, r.draws() == 0
    { unimplemented!() }
    /// no guarantee at all about the state: using it where a seed is required breaks a postcondition
    #[verifier::external_body]
    pub fn from_entropy() -> (r: Pcg64Mcg)
        ensures !r.seeded()
    { unimplemented!() }
    /// `rng.gen_range(lo, hi)` on floats: half-open, panics unless lo < hi
    #[verifier::external_body]
    pub fn gen_range(&mut self, lo: F, hi: F) -> (r: F)
        requires lo@ < hi@
        ensures lo@ <= r@ < hi@, final(self).last() == r@,
            final(self).seeded() == old(self).seeded(), final(self).seed() == old(self).seed(),
            final(self).draws() == old(self).draws() + 1,
    { unimplemented!() }
    /// `rng.gen::<f64>()`: uniform in [0, 1)  (uniformity itself is assumed, not expressible here)
    #[verifier::external_body]
    pub fn gen(&mut self) -> (r: F)
        ensures 0real <= r@ < 1real, final(self).last() == r@,
            final(self).seeded() == old(self).seeded(), final(self).seed() == old(self).seed(),
            final(self).draws() == old(self).draws() + 1,
    { unimplemented!() }
    #[verifier::external_body]
    pub fn gen_u64(&mut self) -> (r: u64)
    { unimplemented!() }
}
