// ======== nalgebra 0.22 shim: ASSUMED contracts on the dependency (trusted; sanity-checked against the
// real crate on concrete inputs by Kani harness k_shim_*) ========
#[derive(Clone, Copy)]
pub struct Point2 { pub x: F, pub y: F }
impl Point2 {
    #[verifier::external_body]
    pub fn new(x: F, y: F) -> (r: Point2) ensures r.x == x, r.y == y { unimplemented!() }
    #[verifier::external_body]
    pub fn origin() -> (r: Point2) ensures r.x@ == 0real, r.y@ == 0real { unimplemented!() }
    /// `a - b` on points gives a vector
    #[verifier::external_body]
    pub fn sub_p(&self, o: &Point2) -> (r: Vector2) ensures r.x@ == self.x@ - o.x@, r.y@ == self.y@ - o.y@ { unimplemented!() }
}
#[derive(Clone, Copy)]
pub struct Vector2 { pub x: F, pub y: F }
impl Vector2 {
    #[verifier::external_body]
    pub fn norm_squared(&self) -> (r: F) ensures r@ == self.x@ * self.x@ + self.y@ * self.y@ { unimplemented!() }
    #[verifier::external_body]
    pub fn norm(&self) -> (r: F) ensures r@ == sqrt_r(self.x@ * self.x@ + self.y@ * self.y@) { unimplemented!() }
}
/// nalgebra::distance(&p, &q) = sqrt(|p-q|^2)
#[verifier::external_body]
pub fn distance(p: &Point2, q: &Point2) -> (r: F)
    ensures r@ == sqrt_r((p.x@ - q.x@) * (p.x@ - q.x@) + (p.y@ - q.y@) * (p.y@ - q.y@))
{ unimplemented!() }

#[derive(Clone, Copy)]
pub struct Translation2 { pub x: F, pub y: F }
impl Translation2 {
    #[verifier::external_body]
    pub fn new(x: F, y: F) -> (r: Translation2) ensures r.x == x, r.y == y { unimplemented!() }
    /// Translation2 * Point2
    #[verifier::external_body]
    pub fn mul_p(&self, p: Point2) -> (r: Point2) ensures r.x@ == self.x@ + p.x@, r.y@ == self.y@ + p.y@ { unimplemented!() }
}
impl vstd::std_specs::ops::MulSpecImpl<Point2> for Translation2 {
    open spec fn obeys_mul_spec() -> bool { false }
    open spec fn mul_req(self, rhs: Point2) -> bool { true }
    open spec fn mul_spec(self, rhs: Point2) -> Point2 { arbitrary() }
}
/// Translation2 * Point2
impl Mul<Point2> for Translation2 { type Output = Point2;
    #[verifier::external_body]
    fn mul(self, p: Point2) -> (r: Point2) ensures r.x@ == self.x@ + p.x@, r.y@ == self.y@ + p.y@ { unimplemented!() } }
#[derive(Clone, Copy)]
pub struct Rotation2 { pub angle: F }
impl Rotation2 {
    #[verifier::external_body]
    pub fn new(angle: F) -> (r: Rotation2) ensures r.angle == angle { unimplemented!() }
}

#[derive(Clone, Copy)]
pub struct Matrix3 { pub m00: F, pub m01: F, pub m02: F, pub m10: F, pub m11: F, pub m12: F, pub m20: F, pub m21: F, pub m22: F }
impl Matrix3 {
    pub open spec fn e(self, r: int, c: int) -> real {
        if r == 0 { if c == 0 { self.m00@ } else if c == 1 { self.m01@ } else { self.m02@ } }
        else if r == 1 { if c == 0 { self.m10@ } else if c == 1 { self.m11@ } else { self.m12@ } }
        else { if c == 0 { self.m20@ } else if c == 1 { self.m21@ } else { self.m22@ } }
    }
    /// Matrix3::new(m11, m12, m13, m21, ...) — row-major arguments
    #[verifier::external_body]
    pub fn new(m00: F, m01: F, m02: F, m10: F, m11: F, m12: F, m20: F, m21: F, m22: F) -> (r: Matrix3)
        ensures r.m00 == m00, r.m01 == m01, r.m02 == m02, r.m10 == m10, r.m11 == m11, r.m12 == m12, r.m20 == m20, r.m21 == m21, r.m22 == m22
    { unimplemented!() }
    #[verifier::external_body]
    pub fn zeros() -> (r: Matrix3)
        ensures r.m00@ == 0real, r.m01@ == 0real, r.m02@ == 0real, r.m10@ == 0real, r.m11@ == 0real, r.m12@ == 0real,
            r.m20@ == 0real, r.m21@ == 0real, r.m22@ == 0real
    { unimplemented!() }
    #[verifier::external_body]
    pub fn identity() -> (r: Matrix3)
        ensures r.m00@ == 1real, r.m01@ == 0real, r.m02@ == 0real, r.m10@ == 0real, r.m11@ == 1real, r.m12@ == 0real,
            r.m20@ == 0real, r.m21@ == 0real, r.m22@ == 1real
    { unimplemented!() }
    /// `m[(r, c)]` — panics when out of range
    #[verifier::external_body]
    pub fn at(&self, r: usize, c: usize) -> (v: F)
        requires r < 3, c < 3
        ensures v@ == self.e(r as int, c as int),
            r == 0 && c == 0 ==> v == self.m00, r == 0 && c == 1 ==> v == self.m01, r == 0 && c == 2 ==> v == self.m02,
            r == 1 && c == 0 ==> v == self.m10, r == 1 && c == 1 ==> v == self.m11, r == 1 && c == 2 ==> v == self.m12,
            r == 2 && c == 0 ==> v == self.m20, r == 2 && c == 1 ==> v == self.m21, r == 2 && c == 2 ==> v == self.m22,
    { unimplemented!() }
    /// `m[(r, c)] = v`
    #[verifier::external_body]
    pub fn set_at(&mut self, r: usize, c: usize, v: F)
        requires r < 3, c < 3
        ensures
            final(self).m00 == (if r == 0 && c == 0 { v } else { old(self).m00 }),
            final(self).m01 == (if r == 0 && c == 1 { v } else { old(self).m01 }),
            final(self).m02 == (if r == 0 && c == 2 { v } else { old(self).m02 }),
            final(self).m10 == (if r == 1 && c == 0 { v } else { old(self).m10 }),
            final(self).m11 == (if r == 1 && c == 1 { v } else { old(self).m11 }),
            final(self).m12 == (if r == 1 && c == 2 { v } else { old(self).m12 }),
            final(self).m20 == (if r == 2 && c == 0 { v } else { old(self).m20 }),
            final(self).m21 == (if r == 2 && c == 1 { v } else { old(self).m21 }),
            final(self).m22 == (if r == 2 && c == 2 { v } else { old(self).m22 }),
    { unimplemented!() }
}
/// matrix product a*b, entry (r,c)
pub open spec fn mm(a: Matrix3, b: Matrix3, r: int, c: int) -> real {
    a.e(r, 0) * b.e(0, c) + a.e(r, 1) * b.e(1, c) + a.e(r, 2) * b.e(2, c)
}

/// nalgebra::IsometryMatrix2::from_parts(t, r).to_homogeneous()
pub struct IsometryMatrix2 { pub t: Translation2, pub r: Rotation2 }
impl IsometryMatrix2 {
    #[verifier::external_body]
    pub fn from_parts(t: Translation2, r: Rotation2) -> (i: IsometryMatrix2) ensures i.t == t, i.r == r { unimplemented!() }
    #[verifier::external_body]
    pub fn to_homogeneous(&self) -> (m: Matrix3)
        ensures m.m00@ == cos_r(self.r.angle@), m.m01@ == -sin_r(self.r.angle@), m.m02@ == self.t.x@,
            m.m10@ == sin_r(self.r.angle@), m.m11@ == cos_r(self.r.angle@), m.m12@ == self.t.y@,
            m.m20@ == 0real, m.m21@ == 0real, m.m22@ == 1real
    { unimplemented!() }
}

/// nalgebra::Transform2<f64> = Transform<f64, U2, TGeneral>: a 3x3 homogeneous matrix
#[derive(Clone, Copy)]
pub struct NTransform2 { pub m: Matrix3 }
/// Transform<TGeneral> * Point (transform_ops.rs): homogeneous divide when the normaliser is non-zero
pub open spec fn ntp_x(m: Matrix3, p: Point2) -> real {
    let n = m.m20@ * p.x@ + m.m21@ * p.y@ + m.m22@;
    let x = m.m00@ * p.x@ + m.m01@ * p.y@ + m.m02@;
    if n != 0real { x / n } else { x }
}
pub open spec fn ntp_y(m: Matrix3, p: Point2) -> real {
    let n = m.m20@ * p.x@ + m.m21@ * p.y@ + m.m22@;
    let y = m.m10@ * p.x@ + m.m11@ * p.y@ + m.m12@;
    if n != 0real { y / n } else { y }
}
impl NTransform2 {
    #[verifier::external_body]
    pub fn from_matrix_unchecked(m: Matrix3) -> (r: NTransform2) ensures r.m == m { unimplemented!() }
    #[verifier::external_body]
    pub fn identity() -> (r: NTransform2)
        ensures r.m.m00@ == 1real, r.m.m01@ == 0real, r.m.m02@ == 0real, r.m.m10@ == 0real, r.m.m11@ == 1real, r.m.m12@ == 0real,
            r.m.m20@ == 0real, r.m.m21@ == 0real, r.m.m22@ == 1real
    { unimplemented!() }
    #[verifier::external_body]
    pub fn matrix(&self) -> (r: &Matrix3) ensures *r == self.m { unimplemented!() }
    /// Transform * Point
    #[verifier::external_body]
    pub fn mul_p(&self, p: Point2) -> (r: Point2) ensures r.x@ == ntp_x(self.m, p), r.y@ == ntp_y(self.m, p) { unimplemented!() }
    /// Transform * Transform = matrix product
    #[verifier::external_body]
    pub fn mul_t(&self, o: NTransform2) -> (r: NTransform2)
        ensures
            r.m.m00@ == mm(self.m, o.m, 0, 0), r.m.m01@ == mm(self.m, o.m, 0, 1), r.m.m02@ == mm(self.m, o.m, 0, 2),
            r.m.m10@ == mm(self.m, o.m, 1, 0), r.m.m11@ == mm(self.m, o.m, 1, 1), r.m.m12@ == mm(self.m, o.m, 1, 2),
            r.m.m20@ == mm(self.m, o.m, 2, 0), r.m.m21@ == mm(self.m, o.m, 2, 1), r.m.m22@ == mm(self.m, o.m, 2, 2),
    { unimplemented!() }
    /// IndexMut<(usize, usize)> forwards to the matrix
    #[verifier::external_body]
    pub fn at(&self, r: usize, c: usize) -> (v: F)
        requires r < 3, c < 3
        ensures v@ == self.m.e(r as int, c as int)
    { unimplemented!() }
    #[verifier::external_body]
    pub fn set_at(&mut self, r: usize, c: usize, v: F)
        requires r < 3, c < 3
        ensures
            final(self).m.m00 == (if r == 0 && c == 0 { v } else { old(self).m.m00 }),
            final(self).m.m01 == (if r == 0 && c == 1 { v } else { old(self).m.m01 }),
            final(self).m.m02 == (if r == 0 && c == 2 { v } else { old(self).m.m02 }),
            final(self).m.m10 == (if r == 1 && c == 0 { v } else { old(self).m.m10 }),
            final(self).m.m11 == (if r == 1 && c == 1 { v } else { old(self).m.m11 }),
            final(self).m.m12 == (if r == 1 && c == 2 { v } else { old(self).m.m12 }),
            final(self).m.m20 == (if r == 2 && c == 0 { v } else { old(self).m.m20 }),
            final(self).m.m21 == (if r == 2 && c == 1 { v } else { old(self).m.m21 }),
            final(self).m.m22 == (if r == 2 && c == 2 { v } else { old(self).m.m22 }),
    { unimplemented!() }
}
