// Witness search (DESIGN 3.8): native oracles for leaf obligations.  When Verus reports a failed obligation it gives no model;
// the driver then copies this file into tests/ of a scratch copy of /repo's working tree and runs the test named after the
// obligation.  A test evaluates the REAL function against the clause on inputs drawn from VERIF_SEED; if it finds a failing
// input it panics with a line `WITNESS <inputs>`, which upgrades the replay.  It can never change a verdict.
use packing::traits::*;
use packing::{Cell2, CrystalFamily, LJ2, Line2, Atom2, SharedValue, StandardBasis, Transform2};
use rand::prelude::*;
use rand_pcg::Pcg64Mcg;

fn rng() -> Pcg64Mcg {
    let seed: u64 = std::env::var("VERIF_SEED").ok().and_then(|s| s.parse().ok()).unwrap_or(0);
    Pcg64Mcg::seed_from_u64(seed.wrapping_add(0x5eed))
}
const N: usize = 200_000;

/// pick "interesting" reals: small integers and halves, values on a coarse grid (exact in binary), and generic values
fn pick(r: &mut Pcg64Mcg, scale: f64) -> f64 {
    match r.gen_range(0, 4) {
        0 => (r.gen_range(-4, 5) as f64) * 0.5,
        1 => (r.gen_range(-16, 17) as f64) * 0.125 * scale,
        _ => r.gen_range(-scale, scale),
    }
}

/// V:pairs:intersects:line.intersects — closed-segment crossing via exact-ish orientation tests on grid inputs
#[test]
fn line_intersects() {
    let mut r = rng();
    for _ in 0..N {
        // grid inputs: every quantity below is exact in f64, so the oracle's rational arithmetic is exact
        let g = |r: &mut Pcg64Mcg| (r.gen_range(-8, 9) as f64) * 0.25;
        let (a, b) = (Line2::new((g(&mut r), g(&mut r)), (g(&mut r), g(&mut r))), Line2::new((g(&mut r), g(&mut r)), (g(&mut r), g(&mut r))));
        let (dx, dy, ex, ey) = (a.end.x - a.start.x, a.end.y - a.start.y, b.end.x - b.start.x, b.end.y - b.start.y);
        let den = ey * dx - ex * dy;
        let expect = if den == 0. { false } else {
            let ua_n = ex * (a.start.y - b.start.y) - ey * (a.start.x - b.start.x);
            let ub_n = dx * (a.start.y - b.start.y) - dy * (a.start.x - b.start.x);
            // 0 <= n/den <= 1 without dividing
            let inside = |n: f64| if den > 0. { 0. <= n && n <= den } else { den <= n && n <= 0. };
            inside(ua_n) && inside(ub_n)
        };
        let got = a.intersects(&b);
        assert!(got == expect, "WITNESS Line2 a=({},{})-({},{}) b=({},{})-({},{}): intersects()={} but the closed segments {}cross",
            a.start.x, a.start.y, a.end.x, a.end.y, b.start.x, b.start.y, b.end.x, b.end.y, got, if expect { "" } else { "do not " });
    }
}

/// V:pairs:intersects:atom.overlap / atom.apart
#[test]
fn atom_intersects() {
    let mut r = rng();
    for _ in 0..N {
        let g = |r: &mut Pcg64Mcg| (r.gen_range(-16, 17) as f64) * 0.125;
        let (a, b) = (Atom2::new(g(&mut r), g(&mut r), (r.gen_range(1, 17) as f64) * 0.125), Atom2::new(g(&mut r), g(&mut r), (r.gen_range(1, 17) as f64) * 0.125));
        let d2 = (a.position.x - b.position.x).powi(2) + (a.position.y - b.position.y).powi(2);
        let c2 = (a.radius + b.radius).powi(2);
        let got = a.intersects(&b);
        if d2 < c2 { assert!(got, "WITNESS Atom2 ({},{},r={}) ({},{},r={}): centres {} apart, radii sum {}: overlap not reported", a.position.x, a.position.y, a.radius, b.position.x, b.position.y, b.radius, d2.sqrt(), c2.sqrt()); }
        if d2 > c2 { assert!(!got, "WITNESS Atom2 ({},{},r={}) ({},{},r={}): centres {} apart, radii sum {}: reported as overlapping", a.position.x, a.position.y, a.radius, b.position.x, b.position.y, b.radius, d2.sqrt(), c2.sqrt()); }
    }
}

/// V:pairs:energy:lj.energy — shifted truncated 12-6 law
#[test]
fn lj_energy() {
    let mut r = rng();
    for _ in 0..N {
        let (sigma, eps) = (r.gen_range(0.5, 2.5), r.gen_range(0.25, 3.));
        let cutoff = if r.gen::<bool>() { Some(r.gen_range(1.5, 4.)) } else { None };
        let a = LJ2 { position: nalgebra::Point2::new(pick(&mut r, 2.), pick(&mut r, 2.)), sigma, epsilon: eps, cutoff };
        let b = LJ2 { position: nalgebra::Point2::new(pick(&mut r, 2.), pick(&mut r, 2.)), sigma, epsilon: eps, cutoff };
        let d = ((a.position.x - b.position.x).powi(2) + (a.position.y - b.position.y).powi(2)).sqrt();
        if d < 0.3 { continue; }
        let law = |x: f64| 4. * eps * ((sigma / x).powi(12) - (sigma / x).powi(6));
        let expect = match cutoff { None => law(d), Some(c) => if d < c { law(d) - law(c) } else { 0. } };
        let got = a.energy(&b);
        assert!((got - expect).abs() <= 1e-9 * (1. + expect.abs()), "WITNESS LJ2 sigma={} eps={} cutoff={:?} distance={}: energy()={} but the shifted 12-6 law gives {}", sigma, eps, cutoff, d, got, expect);
    }
}

/// V:geom:periodic:periodic.range / periodic.mod
#[test]
fn transform_periodic() {
    let mut r = rng();
    for _ in 0..N {
        let (x, y) = (pick(&mut r, 3.), pick(&mut r, 3.));
        let t = Transform2::new(r.gen_range(0., 6.), (x, y));
        let p = t.periodic(1., -0.5).position();
        for (v, w) in [(x, p.x), (y, p.y)].iter() {
            assert!(-0.5 <= *w && *w < 0.5, "WITNESS Transform2 translation ({}, {}): periodic(1,-0.5) gives {} outside [-0.5, 0.5)", x, y, w);
            let k = (w - v).round();
            assert!(((w - v) - k).abs() < 1e-9, "WITNESS Transform2 translation ({}, {}): periodic(1,-0.5) moved a coordinate by {} which is not a whole number of periods", x, y, w - v);
        }
    }
}

fn cell(r: &mut Pcg64Mcg) -> (Cell2, f64, f64, f64) {
    let c = Cell2::from_family(CrystalFamily::Monoclinic, 1.);
    let (len, ratio, angle) = (r.gen_range(0.5, 6.), r.gen_range(0.1, 1.), r.gen_range(std::f64::consts::PI / 6., std::f64::consts::PI / 2.));
    // set through the handles (clamped to [0.01,1] etc.), so re-create with the length first
    let c2 = Cell2::from_family(CrystalFamily::Monoclinic, len);
    { let mut b = c2.get_degrees_of_freedom(); b[1].set_value(ratio); b[2].set_value(angle); }
    let _ = c;
    (c2, len, len * ratio, angle)
}

/// V:geom:to_cartesian:to_cartesian, V:geom:area:area, V:geom:periodic_shells:shells.suffices
#[test]
fn cell_geometry() {
    let mut r = rng();
    for _ in 0..N / 4 {
        let (c, a, b, t) = cell(&mut r);
        let (x, y) = (pick(&mut r, 2.), pick(&mut r, 2.));
        let (cx, cy) = c.to_cartesian(x, y);
        let (ex, ey) = (x * a + y * b * t.cos(), y * b * t.sin());
        assert!((cx - ex).abs() < 1e-9 && (cy - ey).abs() < 1e-9, "WITNESS Cell2 a={} b={} angle={}: to_cartesian({}, {}) = ({}, {}) but x*A + y*B = ({}, {})", a, b, t, x, y, cx, cy, ex, ey);
        let area = c.area();
        assert!((area - a * b * t.sin()).abs() < 1e-9, "WITNESS Cell2 a={} b={} angle={}: area() = {} but |A x B| = {}", a, b, t, area, a * b * t.sin());
        let d = r.gen_range(0.1, 5.);
        let k = c.periodic_shells(d) as f64;
        assert!(k * a * t.sin() >= d - 1e-9 && k * b * t.sin() >= d - 1e-9, "WITNESS Cell2 a={} b={} angle={}: periodic_shells({}) = {} but an image {} cells away can be as close as {}", a, b, t, d, k, k + 1., (k * b * t.sin()).min(k * a * t.sin()));
    }
}

/// V:opt:set_value:set.clamp / set.old, V:opt:reset_value:reset.cur
#[test]
fn basis_set_reset() {
    let mut r = rng();
    for _ in 0..N {
        let (lo, hi) = { let (p, q) = (pick(&mut r, 2.), pick(&mut r, 2.)); (p.min(q), p.max(q)) };
        let v0 = r.gen_range(lo - 0.1, hi + 0.1).max(lo).min(hi);
        let cell = SharedValue::new(v0);
        let mut b = StandardBasis::new(&cell, lo, hi);
        let x = pick(&mut r, 3.);
        b.set_value(x);
        let expect = if x < lo { lo } else if x > hi { hi } else { x };
        assert!(cell.get_value() == expect, "WITNESS StandardBasis [{}, {}] value {}: set_value({}) stored {} instead of {}", lo, hi, v0, x, cell.get_value(), expect);
        b.reset_value();
        assert!(cell.get_value().to_bits() == v0.to_bits(), "WITNESS StandardBasis [{}, {}] value {}: after set_value({}) and reset_value() the cell holds {}", lo, hi, v0, x, cell.get_value());
    }
}

/// V:geom:periodic_images:images.* — exactly the offsets |n|,|m| <= k (untranslated one only when asked)
#[test]
fn periodic_images_enum() {
    let mut r = rng();
    for _ in 0..2000 {
        let (c, a, b, t) = cell(&mut r);
        let k = r.gen_range(0, 5) as i64;
        let zero = r.gen::<bool>();
        let tr = Transform2::new(r.gen_range(0., 6.), (r.gen_range(-0.5, 0.5), r.gen_range(-0.5, 0.5)));
        let base = c.to_cartesian_isometry(tr).position();
        let got: Vec<_> = c.periodic_images(tr, k, zero).map(|i| i.position()).collect();
        let mut want = vec![];
        for n in -k..=k { for m in -k..=k { if zero || n != 0 || m != 0 {
            want.push((base.x + n as f64 * a + m as f64 * b * t.cos(), base.y + m as f64 * b * t.sin()));
        } } }
        let close = |p: &nalgebra::Point2<f64>, q: &(f64, f64)| (p.x - q.0).abs() < 1e-9 && (p.y - q.1).abs() < 1e-9;
        for q in want.iter() {
            let cnt = got.iter().filter(|p| close(p, q)).count();
            assert!(cnt == 1, "WITNESS Cell2 a={} b={} angle={} shells={} zero={}: the image at offset ({}, {}) from the placement occurs {} times", a, b, t, k, zero, q.0 - base.x, q.1 - base.y, cnt);
        }
        assert!(got.len() == want.len(), "WITNESS Cell2 a={} b={} angle={} shells={} zero={}: {} images instead of {}", a, b, t, k, zero, got.len(), want.len());
    }
}

/// V:state:check_intersection:* / V:state:score:score.* (hard states): a scored state has no overlap within 8 shells
#[test]
fn packed_overlap() {
    use packing::wallpaper::{get_wallpaper_group, WallpaperGroups};
    use packing::{MolecularShape2, PackedState};
    let mut r = rng();
    let groups = [WallpaperGroups::p1, WallpaperGroups::p2, WallpaperGroups::p2mg, WallpaperGroups::p2gg];
    for g in groups.iter() {
        let gname = format!("{:?}", g);
        let wg = get_wallpaper_group(match gname.as_str() { "p1" => WallpaperGroups::p1, "p2" => WallpaperGroups::p2, "p2mg" => WallpaperGroups::p2mg, _ => WallpaperGroups::p2gg }).unwrap();
        for shape in [MolecularShape2::circle(), MolecularShape2::from_trimer(0.637556, 120., 1.), MolecularShape2::from_trimer(1.0, 180., 1.9)].iter() {
            let st0 = PackedState::from_group(shape.clone(), &wg).unwrap();
            let n = st0.total_shapes() as f64;
            for _ in 0..1500 {
                let st = st0.clone();
                let mut basis = st.generate_basis();
                let nb = basis.len();
                let (ratio, angle, dens): (f64, f64, f64) = (r.gen_range(0.1, 1.0), r.gen_range(std::f64::consts::PI / 6., std::f64::consts::PI / 2.), r.gen_range(0.1, 1.1));
                let (rr, aa) = (if nb >= 5 { ratio } else { 1. }, if nb >= 6 { angle } else { std::f64::consts::PI / 2. });
                basis[0].set_value((n * shape.area() / (dens * rr * aa.sin())).sqrt());
                let mut k = 1;
                if nb >= 5 { basis[k].set_value(ratio); k += 1; }
                if nb >= 6 { basis[k].set_value(angle); k += 1; }
                basis[k].set_value(r.gen_range(-0.5, 0.5)); basis[k + 1].set_value(r.gen_range(-0.5, 0.5)); basis[k + 2].set_value(r.gen_range(0., 6.28));
                if let Some(score) = st.score() {
                    let cart: Vec<_> = st.cartesian_positions().collect();
                    let rel: Vec<_> = st.relative_positions().collect();
                    for (i, t1) in cart.iter().enumerate() {
                        let s1 = st.shape.transform(t1);
                        for (j, p) in rel.iter().enumerate() {
                            for (idx, t2) in st.cell.periodic_images(*p, 8, true).enumerate() {
                                let (a_, b_) = (idx as i64 / 17 - 8, idx as i64 % 17 - 8);
                                if a_ == 0 && b_ == 0 && i >= j { continue; }
                                assert!(!s1.intersects(&st.shape.transform(&t2)),
                                    "WITNESS PackedState {} {}: score {} reported but copy {} overlaps copy {} translated by ({}, {}) cells; parameters {:?}",
                                    gname, shape, score, i, j, a_, b_, st.generate_basis().iter().map(|b| b.get_value()).collect::<Vec<_>>());
                            }
                        }
                    }
                }
            }
        }
    }
}

/// V:state:score:pscore.* / ps.* (LJ states): score = -(lattice energy per molecule), each pair once, 3 shells
#[test]
fn lattice_energy() {
    use packing::wallpaper::{get_wallpaper_group, WallpaperGroups};
    use packing::{LJShape2, PotentialState};
    let mut r = rng();
    for g in [WallpaperGroups::p1, WallpaperGroups::p2, WallpaperGroups::p2mg].iter() {
        let gname = format!("{:?}", g);
        let wg = get_wallpaper_group(match gname.as_str() { "p1" => WallpaperGroups::p1, "p2" => WallpaperGroups::p2, _ => WallpaperGroups::p2mg }).unwrap();
        for shape in [LJShape2::circle(), LJShape2::from_trimer(1.0, 120., 1.)].iter() {
            let st0 = PotentialState::from_group(shape.clone(), &wg).unwrap();
            let n = st0.total_shapes() as f64;
            for _ in 0..300 {
                let st = st0.clone();
                let mut basis = st.generate_basis();
                let nb = basis.len();
                basis[0].set_value(r.gen_range(2., 8.) * n.sqrt());
                let mut k = 1;
                if nb >= 5 { basis[k].set_value(r.gen_range(0.6, 1.0)); k += 1; }
                if nb >= 6 { basis[k].set_value(r.gen_range(1.0, 1.57)); k += 1; }
                basis[k].set_value(r.gen_range(-0.5, 0.5)); basis[k + 1].set_value(r.gen_range(-0.5, 0.5)); basis[k + 2].set_value(r.gen_range(0., 6.28));
                let cart: Vec<_> = st.cartesian_positions().collect();
                let rel: Vec<_> = st.relative_positions().collect();
                // every ordered pair (i, image of j) != (i, i itself) within 3 shells, halved: each physical pair once
                let mut e = 0.;
                for (i, t1) in cart.iter().enumerate() {
                    let s1 = st.shape.transform(t1);
                    for (j, p) in rel.iter().enumerate() {
                        for (idx, t2) in st.cell.periodic_images(*p, 3, true).enumerate() {
                            if idx == 24 && i == j { continue; }
                            e += 0.5 * s1.energy(&st.shape.transform(&t2));
                        }
                    }
                }
                let want = -e / n;
                let got = st.score().unwrap();
                assert!((got - want).abs() <= 1e-9 * (1. + want.abs()), "WITNESS PotentialState {} {}: score {} but minus the lattice energy per molecule is {}; parameters {:?}",
                    gname, shape, got, want, st.generate_basis().iter().map(|b| b.get_value()).collect::<Vec<_>>());
            }
        }
    }
}
