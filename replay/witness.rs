// Witness search (DESIGN 3.8): native oracles for leaf obligations.  When Verus reports a failed obligation it gives no model;
// the driver then copies this file into tests/ of a scratch copy of /repo's working tree and runs the test named after the
// obligation.  A test evaluates the REAL function against the clause on inputs drawn from VERIF_SEED; if it finds a failing
// input it panics with a line `WITNESS <inputs>`, which upgrades the replay.  It can never change a verdict.
use packing::traits::*;
use packing::{Cell2, CrystalFamily, LJ2, Line2, Atom2, SharedValue, StandardBasis, Transform2};
use rand::prelude::*;
use rand_pcg::Pcg64Mcg;

fn rng() -> Pcg64Mcg {
    let seed: u64 = std::env::var("VERIF_SEED").ok().and_then(|s| s.parse().ok()).unwrap_or(0);
    Pcg64Mcg::seed_from_u64(seed.wrapping_add(0x5eed))
}
const N: usize = 200_000;

/// pick "interesting" reals: small integers and halves, values on a coarse grid (exact in binary), and generic values
fn pick(r: &mut Pcg64Mcg, scale: f64) -> f64 {
    match r.gen_range(0, 4) {
        0 => (r.gen_range(-4, 5) as f64) * 0.5,
        1 => (r.gen_range(-16, 17) as f64) * 0.125 * scale,
        _ => r.gen_range(-scale, scale),
    }
}

/// V:pairs:intersects:line.intersects — closed-segment crossing via exact-ish orientation tests on grid inputs
#[test]
fn line_intersects() {
    let mut r = rng();
    for _ in 0..N {
        // grid inputs: every quantity below is exact in f64, so the oracle's rational arithmetic is exact
        let g = |r: &mut Pcg64Mcg| (r.gen_range(-8, 9) as f64) * 0.25;
        let (a, b) = (Line2::new((g(&mut r), g(&mut r)), (g(&mut r), g(&mut r))), Line2::new((g(&mut r), g(&mut r)), (g(&mut r), g(&mut r))));
        let (dx, dy, ex, ey) = (a.end.x - a.start.x, a.end.y - a.start.y, b.end.x - b.start.x, b.end.y - b.start.y);
        let den = ey * dx - ex * dy;
        let expect = if den == 0. { false } else {
            let ua_n = ex * (a.start.y - b.start.y) - ey * (a.start.x - b.start.x);
            let ub_n = dx * (a.start.y - b.start.y) - dy * (a.start.x - b.start.x);
            // 0 <= n/den <= 1 without dividing
            let inside = |n: f64| if den > 0. { 0. <= n && n <= den } else { den <= n && n <= 0. };
            inside(ua_n) && inside(ub_n)
        };
        let got = a.intersects(&b);
        assert!(got == expect, "WITNESS Line2 a=({},{})-({},{}) b=({},{})-({},{}): intersects()={} but the closed segments {}cross",
            a.start.x, a.start.y, a.end.x, a.end.y, b.start.x, b.start.y, b.end.x, b.end.y, got, if expect { "" } else { "do not " });
    }
    line_near_touch();
}

/// V:pairs:intersects:line.intersects — near misses: a segment ending a tiny (exactly representable) distance short of / beyond another
fn line_near_touch() {
    let mut r = rng();
    for _ in 0..N / 4 {
        let g = |r: &mut Pcg64Mcg| (r.gen_range(-8, 9) as f64) * 0.25;
        // b is horizontal at height y0; a comes down vertically onto it and stops `gap` above (no crossing) or below (crossing)
        let (x0, y0, len) = (g(&mut r), g(&mut r), (r.gen_range(1, 9) as f64) * 0.25);
        let gap = 2f64.powi(-r.gen_range(20, 31));
        let above = r.gen::<bool>();
        let t = (r.gen_range(1, 8) as f64) * 0.125;
        let b = Line2::new((x0, y0), (x0 + len, y0));
        let xe = x0 + t * len;
        let a = Line2::new((xe, y0 + 1.), (xe, if above { y0 + gap } else { y0 - gap }));
        let (got1, got2) = (a.intersects(&b), b.intersects(&a));
        assert!(got1 == !above && got2 == !above, "WITNESS Line2 a=({},{})-({},{}) b=({},{})-({},{}): a ends {} {} b: intersects() = {} / {}",
            a.start.x, a.start.y, a.end.x, a.end.y, b.start.x, b.start.y, b.end.x, b.end.y, gap, if above { "above" } else { "below" }, got1, got2);
    }
}

/// V:pairs:area:* / V:pairs:area_edge:* / V:pairs:overlap_area:* — polygon area against the shoelace formula of its vertices, the lens of two
/// discs against the closed form written with the chord half-angle on each side
#[test]
fn shape_areas() {
    use packing::{LineShape, MolecularShape2};
    let mut r = rng();
    for _ in 0..20000 {
        let n = r.gen_range(3, 9);
        let radii: Vec<f64> = (0..n).map(|_| (r.gen_range(4, 17) as f64) * 0.125).collect();
        let shape = LineShape::from_radial("w", radii.clone()).unwrap();
        let pts: Vec<(f64, f64)> = shape.items.iter().map(|l| (l.start.x, l.start.y)).collect();
        let shoelace = 0.5 * (0..pts.len()).map(|i| { let (p, q) = (pts[i], pts[(i + 1) % pts.len()]); p.0 * q.1 - q.0 * p.1 }).sum::<f64>().abs();
        let got = shape.area();
        assert!((got - shoelace).abs() <= 1e-9 * shoelace.max(1.), "WITNESS LineShape::from_radial({:?}): area() = {} but its vertices enclose {}", radii, got, shoelace);
    }
    for _ in 0..20000 {
        // a trimer whose two satellites do not touch each other and are not inside the central disc: area = three discs minus two lenses
        let (radius, distance) = ((r.gen_range(2, 9) as f64) * 0.125, (r.gen_range(2, 17) as f64) * 0.125);
        if distance + radius <= 1. || distance >= 1. + radius || distance <= radius { continue; }
        let shape = MolecularShape2::from_trimer(radius, 180., distance);
        let lens = {
            let (r1, r2, d) = (1f64, radius, distance);
            let a1 = ((d * d + r1 * r1 - r2 * r2) / (2. * d * r1)).acos();
            let a2 = ((d * d + r2 * r2 - r1 * r1) / (2. * d * r2)).acos();
            r1 * r1 * (a1 - a1.sin() * a1.cos()) + r2 * r2 * (a2 - a2.sin() * a2.cos())
        };
        let want = std::f64::consts::PI * (1. + 2. * radius * radius) - 2. * lens;
        let got = shape.area();
        assert!((got - want).abs() <= 1e-9 * want, "WITNESS MolecularShape2::from_trimer({}, 180, {}): area() = {} but three discs minus two lenses is {}", radius, distance, got, want);
    }
}

/// V:pairs:intersects:atom.overlap / atom.apart
#[test]
fn atom_intersects() {
    let mut r = rng();
    for _ in 0..N {
        let g = |r: &mut Pcg64Mcg| (r.gen_range(-16, 17) as f64) * 0.125;
        let (a, b) = (Atom2::new(g(&mut r), g(&mut r), (r.gen_range(1, 17) as f64) * 0.125), Atom2::new(g(&mut r), g(&mut r), (r.gen_range(1, 17) as f64) * 0.125));
        let d2 = (a.position.x - b.position.x).powi(2) + (a.position.y - b.position.y).powi(2);
        let c2 = (a.radius + b.radius).powi(2);
        let got = a.intersects(&b);
        if d2 < c2 { assert!(got, "WITNESS Atom2 ({},{},r={}) ({},{},r={}): centres {} apart, radii sum {}: overlap not reported", a.position.x, a.position.y, a.radius, b.position.x, b.position.y, b.radius, d2.sqrt(), c2.sqrt()); }
        if d2 > c2 { assert!(!got, "WITNESS Atom2 ({},{},r={}) ({},{},r={}): centres {} apart, radii sum {}: reported as overlapping", a.position.x, a.position.y, a.radius, b.position.x, b.position.y, b.radius, d2.sqrt(), c2.sqrt()); }
    }
}

/// V:pairs:energy:lj.energy — shifted truncated 12-6 law
#[test]
fn lj_energy() {
    let mut r = rng();
    for _ in 0..N {
        // the law is scale free: the same configuration in units from 1e-10 (metres for an atom) to 1e3
        let unit = match r.gen_range(0, 4) { 0 => 10f64.powi(r.gen_range(-10, 4)), _ => 1. };
        let (sigma, eps) = (r.gen_range(0.5, 2.5) * unit, r.gen_range(0.25, 3.));
        let cutoff = if r.gen::<bool>() { Some(r.gen_range(1.5, 4.) * unit) } else { None };
        let a = LJ2 { position: nalgebra::Point2::new(pick(&mut r, 2.) * unit, pick(&mut r, 2.) * unit), sigma, epsilon: eps, cutoff };
        let b = LJ2 { position: nalgebra::Point2::new(pick(&mut r, 2.) * unit, pick(&mut r, 2.) * unit), sigma, epsilon: eps, cutoff };
        let d = ((a.position.x - b.position.x).powi(2) + (a.position.y - b.position.y).powi(2)).sqrt();
        if d < 0.3 * unit { continue; }
        let law = |x: f64| 4. * eps * ((sigma / x).powi(12) - (sigma / x).powi(6));
        let expect = match cutoff { None => law(d), Some(c) => if d < c { law(d) - law(c) } else { 0. } };
        let got = a.energy(&b);
        assert!((got - expect).abs() <= 1e-9 * (1. + expect.abs()), "WITNESS LJ2 sigma={} eps={} cutoff={:?} distance={}: energy()={} but the shifted 12-6 law gives {}", sigma, eps, cutoff, d, got, expect);
    }
}

/// V:geom:periodic:periodic.range / periodic.mod
#[test]
fn transform_periodic() {
    let mut r = rng();
    for _ in 0..N {
        let (x, y) = (pick(&mut r, 3.), pick(&mut r, 3.));
        let t = Transform2::new(r.gen_range(0., 6.), (x, y));
        let p = t.periodic(1., -0.5).position();
        for (v, w) in [(x, p.x), (y, p.y)].iter() {
            assert!(-0.5 <= *w && *w < 0.5, "WITNESS Transform2 translation ({}, {}): periodic(1,-0.5) gives {} outside [-0.5, 0.5)", x, y, w);
            let k = (w - v).round();
            assert!(((w - v) - k).abs() < 1e-9, "WITNESS Transform2 translation ({}, {}): periodic(1,-0.5) moved a coordinate by {} which is not a whole number of periods", x, y, w - v);
        }
    }
}

fn cell(r: &mut Pcg64Mcg) -> (Cell2, f64, f64, f64) {
    let c = Cell2::from_family(CrystalFamily::Monoclinic, 1.);
    let (len, ratio, angle) = (r.gen_range(0.5, 6.), r.gen_range(0.1, 1.), r.gen_range(std::f64::consts::PI / 6., std::f64::consts::PI / 2.));
    // set through the handles (clamped to [0.01,1] etc.), so re-create with the length first
    let c2 = Cell2::from_family(CrystalFamily::Monoclinic, len);
    { let mut b = c2.get_degrees_of_freedom(); b[1].set_value(ratio); b[2].set_value(angle); }
    let _ = c;
    (c2, len, len * ratio, angle)
}

/// V:geom:to_cartesian:to_cartesian, V:geom:area:area, V:geom:periodic_shells:shells.suffices
#[test]
fn cell_geometry() {
    let mut r = rng();
    for _ in 0..N / 4 {
        let (c, a, b, t) = cell(&mut r);
        let (x, y) = (pick(&mut r, 2.), pick(&mut r, 2.));
        let (cx, cy) = c.to_cartesian(x, y);
        let (ex, ey) = (x * a + y * b * t.cos(), y * b * t.sin());
        assert!((cx - ex).abs() < 1e-9 && (cy - ey).abs() < 1e-9, "WITNESS Cell2 a={} b={} angle={}: to_cartesian({}, {}) = ({}, {}) but x*A + y*B = ({}, {})", a, b, t, x, y, cx, cy, ex, ey);
        let area = c.area();
        assert!((area - a * b * t.sin()).abs() < 1e-9, "WITNESS Cell2 a={} b={} angle={}: area() = {} but |A x B| = {}", a, b, t, area, a * b * t.sin());
        let d = r.gen_range(0.1, 5.);
        let k = c.periodic_shells(d) as f64;
        assert!(k * a * t.sin() >= d - 1e-9 && k * b * t.sin() >= d - 1e-9, "WITNESS Cell2 a={} b={} angle={}: periodic_shells({}) = {} but an image {} cells away can be as close as {}", a, b, t, d, k, k + 1., (k * b * t.sin()).min(k * a * t.sin()));
    }
}

/// V:opt:set_value:set.clamp / set.old, V:opt:reset_value:reset.cur
#[test]
fn basis_set_reset() {
    let mut r = rng();
    for _ in 0..N {
        let (lo, hi) = { let (p, q) = (pick(&mut r, 2.), pick(&mut r, 2.)); (p.min(q), p.max(q)) };
        let v0 = r.gen_range(lo - 0.1, hi + 0.1).max(lo).min(hi);
        let cell = SharedValue::new(v0);
        let mut b = StandardBasis::new(&cell, lo, hi);
        let x = pick(&mut r, 3.);
        b.set_value(x);
        let expect = if x < lo { lo } else if x > hi { hi } else { x };
        assert!(cell.get_value() == expect, "WITNESS StandardBasis [{}, {}] value {}: set_value({}) stored {} instead of {}", lo, hi, v0, x, cell.get_value(), expect);
        b.reset_value();
        assert!(cell.get_value().to_bits() == v0.to_bits(), "WITNESS StandardBasis [{}, {}] value {}: after set_value({}) and reset_value() the cell holds {}", lo, hi, v0, x, cell.get_value());
    }
}

/// V:geom:periodic_images:images.* — exactly the offsets |n|,|m| <= k (untranslated one only when asked)
#[test]
fn periodic_images_enum() {
    let mut r = rng();
    for _ in 0..2000 {
        let (c, a, b, t) = cell(&mut r);
        let k = r.gen_range(0, 5) as i64;
        let zero = r.gen::<bool>();
        let tr = Transform2::new(r.gen_range(0., 6.), (r.gen_range(-0.5, 0.5), r.gen_range(-0.5, 0.5)));
        let base = c.to_cartesian_isometry(tr).position();
        let got: Vec<_> = c.periodic_images(tr, k, zero).map(|i| i.position()).collect();
        let mut want = vec![];
        for n in -k..=k { for m in -k..=k { if zero || n != 0 || m != 0 {
            want.push((base.x + n as f64 * a + m as f64 * b * t.cos(), base.y + m as f64 * b * t.sin()));
        } } }
        let close = |p: &nalgebra::Point2<f64>, q: &(f64, f64)| (p.x - q.0).abs() < 1e-9 && (p.y - q.1).abs() < 1e-9;
        for q in want.iter() {
            let cnt = got.iter().filter(|p| close(p, q)).count();
            assert!(cnt == 1, "WITNESS Cell2 a={} b={} angle={} shells={} zero={}: the image at offset ({}, {}) from the placement occurs {} times", a, b, t, k, zero, q.0 - base.x, q.1 - base.y, cnt);
        }
        assert!(got.len() == want.len(), "WITNESS Cell2 a={} b={} angle={} shells={} zero={}: {} images instead of {}", a, b, t, k, zero, got.len(), want.len());
    }
}

/// V:state:check_intersection:* / V:state:score:score.* (hard states): a scored state has no overlap within 8 shells
#[test]
fn packed_overlap() {
    use packing::wallpaper::{get_wallpaper_group, WallpaperGroups};
    use packing::{MolecularShape2, PackedState};
    let mut r = rng();
    let groups = [WallpaperGroups::p1, WallpaperGroups::p2, WallpaperGroups::p2mg, WallpaperGroups::p2gg];
    for g in groups.iter() {
        let gname = format!("{:?}", g);
        let wg = get_wallpaper_group(match gname.as_str() { "p1" => WallpaperGroups::p1, "p2" => WallpaperGroups::p2, "p2mg" => WallpaperGroups::p2mg, _ => WallpaperGroups::p2gg }).unwrap();
        for shape in [MolecularShape2::circle(), MolecularShape2::from_trimer(0.637556, 120., 1.), MolecularShape2::from_trimer(1.0, 180., 1.9)].iter() {
            let st0 = PackedState::from_group(shape.clone(), &wg).unwrap();
            let n = st0.total_shapes() as f64;
            for _ in 0..30000 {
                let st = st0.clone();
                let mut basis = st.generate_basis();
                let nb = basis.len();
                let (ratio, angle, dens): (f64, f64, f64) = (r.gen_range(0.1, 1.0), r.gen_range(std::f64::consts::PI / 6., std::f64::consts::PI / 2.), r.gen_range(0.1, 1.1));
                let (rr, aa) = (if nb >= 5 { ratio } else { 1. }, if nb >= 6 { angle } else { std::f64::consts::PI / 2. });
                basis[0].set_value((n * shape.area() / (dens * rr * aa.sin())).sqrt());
                let mut k = 1;
                if nb >= 5 { basis[k].set_value(ratio); k += 1; }
                if nb >= 6 { basis[k].set_value(angle); k += 1; }
                basis[k].set_value(r.gen_range(-0.5, 0.5)); basis[k + 1].set_value(r.gen_range(-0.5, 0.5)); basis[k + 2].set_value(r.gen_range(0., 6.28));
                if let Some(score) = st.score() {
                    let cart: Vec<_> = st.cartesian_positions().collect();
                    let rel: Vec<_> = st.relative_positions().collect();
                    for (i, t1) in cart.iter().enumerate() {
                        let s1 = st.shape.transform(t1);
                        for (j, p) in rel.iter().enumerate() {
                            for (idx, t2) in st.cell.periodic_images(*p, 8, true).enumerate() {
                                let (a_, b_) = (idx as i64 / 17 - 8, idx as i64 % 17 - 8);
                                if a_ == 0 && b_ == 0 && i >= j { continue; }
                                assert!(!s1.intersects(&st.shape.transform(&t2)),
                                    "WITNESS PackedState {} {}: score {} reported but copy {} overlaps copy {} translated by ({}, {}) cells; parameters {:?}",
                                    gname, shape, score, i, j, a_, b_, st.generate_basis().iter().map(|b| b.get_value()).collect::<Vec<_>>());
                            }
                        }
                    }
                }
            }
        }
    }
}

/// V:state:score:pscore.* / ps.* (LJ states): score = -(lattice energy per molecule), each pair once, 3 shells
#[test]
fn lattice_energy() {
    use packing::wallpaper::{get_wallpaper_group, WallpaperGroups};
    use packing::{LJShape2, PotentialState};
    let mut r = rng();
    for g in [WallpaperGroups::p1, WallpaperGroups::p2, WallpaperGroups::p2mg].iter() {
        let gname = format!("{:?}", g);
        let wg = get_wallpaper_group(match gname.as_str() { "p1" => WallpaperGroups::p1, "p2" => WallpaperGroups::p2, _ => WallpaperGroups::p2mg }).unwrap();
        for shape in [LJShape2::circle(), LJShape2::from_trimer(1.0, 120., 1.)].iter() {
            let st0 = PotentialState::from_group(shape.clone(), &wg).unwrap();
            let n = st0.total_shapes() as f64;
            for _ in 0..300 {
                let st = st0.clone();
                let mut basis = st.generate_basis();
                let nb = basis.len();
                basis[0].set_value(r.gen_range(2., 8.) * n.sqrt());
                let mut k = 1;
                if nb >= 5 { basis[k].set_value(r.gen_range(0.6, 1.0)); k += 1; }
                if nb >= 6 { basis[k].set_value(r.gen_range(1.0, 1.57)); k += 1; }
                basis[k].set_value(r.gen_range(-0.5, 0.5)); basis[k + 1].set_value(r.gen_range(-0.5, 0.5)); basis[k + 2].set_value(r.gen_range(0., 6.28));
                let cart: Vec<_> = st.cartesian_positions().collect();
                let rel: Vec<_> = st.relative_positions().collect();
                // every ordered pair (i, image of j) != (i, i itself) within 3 shells, halved: each physical pair once
                let mut e = 0.;
                for (i, t1) in cart.iter().enumerate() {
                    let s1 = st.shape.transform(t1);
                    for (j, p) in rel.iter().enumerate() {
                        for (idx, t2) in st.cell.periodic_images(*p, 3, true).enumerate() {
                            if idx == 24 && i == j { continue; }
                            e += 0.5 * s1.energy(&st.shape.transform(&t2));
                        }
                    }
                }
                let want = -e / n;
                let got = st.score().unwrap();
                assert!((got - want).abs() <= 1e-9 * (1. + want.abs()), "WITNESS PotentialState {} {}: score {} but minus the lattice energy per molecule is {}; parameters {:?}",
                    gname, shape, got, want, st.generate_basis().iter().map(|b| b.get_value()).collect::<Vec<_>>());
            }
        }
    }
}

/// V:opt:set_sampled:* / V:opt:sample:* — one proposal: in range, at most step*range/2 away, undone exactly by reset_value
#[test]
fn basis_set_sampled() {
    let mut r = rng();
    for _ in 0..N {
        let (lo, hi) = { let (p, q) = (pick(&mut r, 2.), pick(&mut r, 2.)); (p.min(q), p.max(q)) };
        let v0 = if hi > lo { r.gen_range(lo, hi) } else { lo };
        let cell = SharedValue::new(v0);
        let mut b = StandardBasis::new(&cell, lo, hi);
        let step = match r.gen_range(0, 4) { 0 => 0.01, 1 => 1., 2 => r.gen_range(0., 1.), _ => r.gen_range(0., 8.) };
        b.set_sampled(&mut r, step);
        let v1 = cell.get_value();
        assert!(lo <= v1 && v1 <= hi, "WITNESS StandardBasis [{}, {}] value {}: set_sampled(step {}) stored {} which is outside the range", lo, hi, v0, step, v1);
        let bound = step * (hi - lo) / 2.;
        assert!((v1 - v0).abs() <= bound * (1. + 1e-9) + 1e-12, "WITNESS StandardBasis [{}, {}] value {}: set_sampled(step {}) moved the value by {} > step*range/2 = {}", lo, hi, v0, step, (v1 - v0).abs(), bound);
        b.reset_value();
        assert!(cell.get_value().to_bits() == v0.to_bits(), "WITNESS StandardBasis [{}, {}] value {}: after set_sampled(step {}) and reset_value() the cell holds {}", lo, hi, v0, step, cell.get_value());
    }
}

// ---- the optimiser against a scripted state (C05 C06 C07 C08 C10 C19 C20) ----
mod scripted {
    use std::sync::{Arc, Mutex};
    use anyhow::Error;
    use serde::Serialize;
    use svg::Document;
    use packing::traits::*;
    use packing::{SharedValue, StandardBasis};

    pub type Log = Arc<Mutex<Vec<(Vec<f64>, Option<f64>)>>>;

    /// k parameters with their own ranges; the score is a pure function of (mode, parameters, number of evaluations so far)
    #[derive(Debug, Serialize)]
    pub struct Scripted {
        pub xs: Vec<SharedValue>,
        #[serde(skip)] pub lo: Vec<f64>,
        #[serde(skip)] pub hi: Vec<f64>,
        #[serde(skip)] pub mode: u8,
        #[serde(skip)] pub log: Log,
    }
    pub fn score_at(mode: u8, xs: &[f64], evals: usize) -> Option<f64> {
        let bowl = -xs.iter().map(|x| x * x).sum::<f64>();
        match mode {
            0 => Some(bowl),
            1 => Some(evals as f64),
            2 => {
                // pseudo-random landscape with undefined and not-a-number regions
                let mut h: u64 = 0x9e3779b97f4a7c15;
                for x in xs { h = (h ^ x.to_bits()).wrapping_mul(0x100000001b3).rotate_left(23); }
                match h % 20 { 0 | 1 => None, 2 => Some(std::f64::NAN), _ => Some(((h >> 11) as f64 / (1u64 << 53) as f64) * 2. - 1.) }
            }
            // plateaus: many proposals have exactly the current score
            _ => Some((bowl * 4.).floor()),
        }
    }
    impl Clone for Scripted {
        fn clone(&self) -> Self {
            Scripted { xs: self.xs.iter().map(|x| SharedValue::new(x.get_value())).collect(), lo: self.lo.clone(), hi: self.hi.clone(),
                       mode: self.mode, log: Arc::new(Mutex::new(vec![])) }
        }
    }
    impl PartialEq for Scripted { fn eq(&self, o: &Self) -> bool { self.values() == o.values() } }
    impl Eq for Scripted {}
    impl PartialOrd for Scripted { fn partial_cmp(&self, o: &Self) -> Option<std::cmp::Ordering> { self.values().partial_cmp(&o.values()) } }
    impl Ord for Scripted { fn cmp(&self, o: &Self) -> std::cmp::Ordering { self.partial_cmp(o).unwrap() } }
    impl ToSVG for Scripted { type Value = Document; fn as_svg(&self) -> Document { Document::new() } }
    impl Scripted {
        pub fn values(&self) -> Vec<f64> { self.xs.iter().map(|x| x.get_value()).collect() }
    }
    impl State for Scripted {
        fn score(&self) -> Option<f64> {
            let v = self.values();
            let mut log = self.log.lock().unwrap();
            let s = score_at(self.mode, &v, log.len());
            log.push((v, s));
            s
        }
        fn generate_basis(&self) -> Vec<StandardBasis> {
            self.xs.iter().enumerate().map(|(i, x)| StandardBasis::new(x, self.lo[i], self.hi[i])).collect()
        }
        fn total_shapes(&self) -> usize { 1 }
        fn as_positions(&self) -> Result<String, Error> { Ok(String::new()) }
    }
}

#[derive(Clone, Debug)]
struct OptCfg { seed: u64, steps: u64, inner: u64, kt_start: f64, kt_finish: Option<f64>, kt_ratio: Option<f64>, max_step: f64, conv: Option<f64> }

fn run_scripted(c: &OptCfg, mode: u8, x0: &[f64], lo: &[f64], hi: &[f64]) -> Result<(Vec<(Vec<f64>, Option<f64>)>, Vec<f64>), String> {
    use std::sync::{Arc, Mutex};
    let log: scripted::Log = Arc::new(Mutex::new(vec![]));
    let st = scripted::Scripted { xs: x0.iter().map(|x| SharedValue::new(*x)).collect(), lo: lo.to_vec(), hi: hi.to_vec(), mode, log: log.clone() };
    let mut b = packing::BuildOptimiser::default();
    b.seed(c.seed).steps(c.steps).inner_steps(c.inner).kt_start(c.kt_start).kt_ratio(c.kt_ratio).max_step_size(c.max_step).convergence(c.conv);
    // kt_finish has no unsetting method: Default has Some(0.001)
    if let Some(f) = c.kt_finish { b.kt_finish(f); }
    let res = std::panic::catch_unwind(std::panic::AssertUnwindSafe(|| { let out = b.build().optimise_state(st); let v: Vec<f64> = out.generate_basis().iter().map(|b| b.get_value()).collect(); v }));
    let l = log.lock().unwrap().clone();
    match res { Ok(v) => Ok((l, v)), Err(_) => Err(format!("panicked after {} evaluations", l.len())) }
}

/// Replays the evaluation log: every evaluation must be explained as one proposal from the held state, with the forced
/// accept/reject decisions of the Metropolis rule; returns the surviving (held, current score) hypotheses.
fn explain(log: &[(Vec<f64>, Option<f64>)], lo: &[f64], hi: &[f64], max_step: f64, kt_zero: bool) -> Result<Vec<(Vec<f64>, f64)>, String> {
    let bits = |v: &Vec<f64>| v.iter().map(|x| x.to_bits()).collect::<Vec<u64>>();
    let s0 = match log[0].1 { Some(s) => s, None => return Err("the starting state has no score".into()) };
    let mut hyps: Vec<(Vec<f64>, f64)> = vec![(log[0].0.clone(), s0)];
    for (i, (p, s)) in log.iter().enumerate().skip(1) {
        for j in 0..p.len() {
            if !(lo[j] <= p[j] && p[j] <= hi[j]) { return Err(format!("evaluation {}: parameter {} = {} is outside [{}, {}]", i, j, p[j], lo[j], hi[j])); }
        }
        let mut next: Vec<(Vec<f64>, f64)> = vec![];
        let mut why = String::new();
        for (held, cur) in hyps.iter() {
            let diff: Vec<usize> = (0..p.len()).filter(|&j| p[j].to_bits() != held[j].to_bits()).collect();
            if diff.len() > 1 { why = format!("evaluation {}: proposal {:?} differs from the held state {:?} in {} parameters", i, p, held, diff.len()); continue; }
            if let Some(&j) = diff.first() {
                let bound = max_step * (hi[j] - lo[j]) / 2.;
                if (p[j] - held[j]).abs() > bound * (1. + 1e-9) + 1e-12 {
                    why = format!("evaluation {}: parameter {} moved from {} to {}, by more than max_step*range/2 = {}", i, j, held[j], p[j], bound); continue;
                }
            }
            let (may_accept, may_reject) = match s {
                None => (false, true),
                Some(v) if v.is_nan() => (false, true),
                Some(v) if *v >= *cur => (true, false),
                Some(_) if kt_zero => (false, true),
                Some(_) => (true, true),
            };
            if may_accept { let h = (p.clone(), s.unwrap()); if !next.iter().any(|n| bits(&n.0) == bits(&h.0) && n.1.to_bits() == h.1.to_bits()) { next.push(h); } }
            if may_reject { let h = (held.clone(), *cur); if !next.iter().any(|n| bits(&n.0) == bits(&h.0) && n.1.to_bits() == h.1.to_bits()) { next.push(h); } }
        }
        if next.is_empty() { return Err(why); }
        if next.len() > 256 { return Ok(vec![]); }
        hyps = next;
    }
    Ok(hyps)
}

/// V:opt:optimise_state:* / V:opt:accept_score:* / V:opt:build:* — the optimiser's contract observed from a recording State
#[test]
fn optimiser_contract() {
    let mut r = rng();
    for _ in 0..30000 {
        let k = r.gen_range(1, 4);
        let mode = r.gen_range(0, 4) as u8;
        let lo: Vec<f64> = (0..k).map(|_| pick(&mut r, 2.).min(0.)).collect();
        let hi: Vec<f64> = (0..k).map(|j| lo[j] + r.gen_range(0.1, 4.)).collect();
        let mut x0: Vec<f64>;
        loop {
            x0 = (0..k).map(|j| r.gen_range(lo[j], hi[j])).collect();
            if let Some(s) = scripted::score_at(mode, &x0, 0) { if !s.is_nan() { break; } }
        }
        let steps = match r.gen_range(0, 4) { 0 => r.gen_range(0, 8), _ => r.gen_range(1, 400) };
        let c = OptCfg {
            seed: r.gen(), steps, inner: match r.gen_range(0, 4) { 0 => r.gen_range(0, 3), 1 => r.gen_range(1, 600), _ => r.gen_range(1, 40) },
            kt_start: match r.gen_range(0, 3) { 0 => 0., 1 => 0.1, _ => r.gen_range(0., 2.) },
            kt_finish: if r.gen() { Some(r.gen_range(0., 0.1)) } else { None },
            kt_ratio: match r.gen_range(0, 5) { 0 => Some(r.gen_range(0., 1.)), 1 => Some(1.), 2 => Some(r.gen_range(1., 3.)), _ => None },
            max_step: match r.gen_range(0, 5) { 0 => 0.01, 1 => r.gen_range(0., 1.), 2 => 1., 3 => [1e-5, 1e-6, 3e-5][r.gen_range(0, 3)], _ => r.gen_range(1., 6.) },
            conv: None,
        };
        let desc = format!("Scripted(mode {}, x0 {:?}, lo {:?}, hi {:?}) with {:?}", mode, x0, lo, hi, c);
        let (log, fin) = match run_scripted(&c, mode, &x0, &lo, &hi) { Ok(x) => x, Err(e) => panic!("WITNESS {}: {}", desc, e) };
        // C20: amount of work (one starting evaluation, the proposals, one closing evaluation)
        let proposals = log.len() as u64 - 2;
        assert!(proposals <= c.steps && proposals + c.inner.max(1) >= c.steps, "WITNESS {}: {} proposals evaluated for steps = {}, inner_steps = {}", desc, proposals, c.steps, c.inner);
        // C06 C07 C08 C19 (and C05 through the forced rejections at zero temperature)
        let hyps = match explain(&log, &lo, &hi, c.max_step, c.kt_start == 0.) { Ok(h) => h, Err(e) => panic!("WITNESS {}: {}", desc, e) };
        if !hyps.is_empty() {
            let fb: Vec<u64> = fin.iter().map(|x| x.to_bits()).collect();
            let hit = hyps.iter().find(|h| h.0.iter().map(|x| x.to_bits()).collect::<Vec<u64>>() == fb);
            assert!(hit.is_some(), "WITNESS {}: the returned parameters {:?} are not those of the last accepted proposal {:?}", desc, fin, hyps.iter().map(|h| h.0.clone()).collect::<Vec<_>>());
            if c.kt_start == 0. && mode != 1 {
                let (s_in, s_out) = (log[0].1.unwrap(), hit.unwrap().1);
                assert!(s_out >= s_in, "WITNESS {}: zero temperature, score went from {} to {}", desc, s_in, s_out);
            }
        }
        if c.kt_start == 0. && mode != 1 {
            let s_out = scripted::score_at(mode, &fin, 0);
            assert!(s_out.map_or(false, |s| s >= log[0].1.unwrap()), "WITNESS {}: zero temperature, score went from {:?} to {:?}", desc, log[0].1, s_out);
        }
        // C10 / C20: same seed, same run; with a convergence threshold the run is a prefix of the run without
        let (log2, fin2) = run_scripted(&c, mode, &x0, &lo, &hi).unwrap_or((vec![], vec![]));
        let same = |a: &[(Vec<f64>, Option<f64>)], b: &[(Vec<f64>, Option<f64>)]| a.len() == b.len() && a.iter().zip(b).all(|(x, y)|
            x.0.iter().map(|v| v.to_bits()).eq(y.0.iter().map(|v| v.to_bits())) && x.1.map(f64::to_bits) == y.1.map(f64::to_bits));
        assert!(same(&log, &log2) && fin == fin2, "WITNESS {}: two runs with the same seed evaluated different proposals", desc);
        let mut cc = c.clone();
        cc.conv = Some(match r.gen_range(0, 3) { 0 => 1e-3, 1 => 0.5, _ => 1e9 });
        let (logc, _) = match run_scripted(&cc, mode, &x0, &lo, &hi) { Ok(x) => x, Err(e) => panic!("WITNESS {} convergence {:?}: {}", desc, cc.conv, e) };
        assert!(logc.len() <= log.len() && same(&logc, &log[..logc.len()]), "WITNESS {}: with convergence {:?} the run is not a prefix of the run without", desc, cc.conv);
        if logc.len() < log.len() {
            let inner = c.inner.min(c.steps).max(1);
            let m = logc.len() as u64 - 1;
            assert!(m % inner == 0 && m >= 6 * inner, "WITNESS {}: with convergence {:?} the run stopped after {} proposals (inner loop {})", desc, cc.conv, m, inner);
        }
    }
}

// ---- C11: JSON round trip of whole states (premise P:serde-plain:* of the assumed serde-derive contract) ----
/// compares two Debug renderings: every non-numeric token exactly, every number to 1e-12 relative
fn debug_close(a: &str, b: &str) -> Result<(), String> {
    fn toks(s: &str) -> Vec<String> {
        let mut out = vec![]; let mut cur = String::new(); let mut num = false;
        let cs: Vec<char> = s.chars().collect();
        for (i, &c) in cs.iter().enumerate() {
            let prev_alpha = i > 0 && (cs[i - 1].is_alphanumeric() || cs[i - 1] == '_');
            let starts = (c.is_ascii_digit() || (c == '-' && i + 1 < cs.len() && cs[i + 1].is_ascii_digit())) && !prev_alpha;
            let cont = num && (c.is_ascii_digit() || c == '.' || c == 'e' || c == 'E' || (c == '-' && (cs[i - 1] == 'e' || cs[i - 1] == 'E')));
            if cont { cur.push(c); }
            else if starts && !num { if !cur.is_empty() { out.push(cur.clone()); cur.clear(); } num = true; cur.push(c); }
            else { if num { out.push(cur.clone()); cur.clear(); num = false; } cur.push(c); }
        }
        if !cur.is_empty() { out.push(cur); }
        out
    }
    let (ta, tb) = (toks(a), toks(b));
    if ta.len() != tb.len() { return Err(format!("different structure: {} vs {}", a, b)); }
    for (x, y) in ta.iter().zip(tb.iter()) {
        if x == y { continue; }
        match (x.parse::<f64>(), y.parse::<f64>()) {
            (Ok(p), Ok(q)) if (p - q).abs() <= 1e-12 * p.abs().max(q.abs()).max(1e-300) => {}
            _ => return Err(format!("`{}` became `{}`", x, y)),
        }
    }
    Ok(())
}

fn all_groups() -> Vec<(&'static str, packing::wallpaper::WallpaperGroup<'static>)> {
    use packing::wallpaper::{get_wallpaper_group, WallpaperGroups::*};
    vec![("p1", p1), ("p2", p2), ("p1m1", p1m1), ("p1g1", p1g1), ("p2mm", p2mm), ("p2mg", p2mg), ("p2gg", p2gg)]
        .into_iter().map(|(n, g)| (n, get_wallpaper_group(g).unwrap())).collect()
}

fn roundtrip_one<T: State + serde::de::DeserializeOwned>(what: &str, st: &T, r: &mut Pcg64Mcg) {
    for round in 0..40 {
        if round > 0 { for b in st.generate_basis().iter_mut() { b.set_sampled(r, 0.6); } }
        let json = serde_json::to_string(st).unwrap();
        let back: T = match serde_json::from_str(&json) { Ok(x) => x, Err(e) => panic!("WITNESS {} parameters {:?}: the written JSON does not parse back: {}", what, st.generate_basis().iter().map(|b| b.get_value()).collect::<Vec<_>>(), e) };
        let pars = st.generate_basis().iter().map(|b| b.get_value()).collect::<Vec<_>>();
        if let Err(e) = debug_close(&format!("{:?}", st), &format!("{:?}", back)) { panic!("WITNESS {} parameters {:?}: after a JSON round trip {}", what, pars, e); }
        assert!(st.total_shapes() == back.total_shapes(), "WITNESS {} parameters {:?}: {} shapes before and {} after a JSON round trip", what, pars, st.total_shapes(), back.total_shapes());
        let ok = match (st.score(), back.score()) { (None, None) => true, (Some(p), Some(q)) => (p - q).abs() <= 1e-9 * p.abs().max(q.abs()).max(1e-300) || (p.is_nan() && q.is_nan()), _ => false };
        assert!(ok, "WITNESS {} parameters {:?}: score {:?} before and {:?} after a JSON round trip", what, pars, st.score(), back.score());
    }
}

/// P:serde-plain:* — a state written as JSON and read back is the same structure (same fields, same score, same copies)
#[test]
fn serde_roundtrip() {
    use packing::{LJShape2, LineShape, MolecularShape2, PackedState, PotentialState};
    let mut r = rng();
    for (name, g) in all_groups().iter() {
        for shape in [MolecularShape2::circle(), MolecularShape2::from_trimer(0.637556, 120., 1.)].iter() {
            roundtrip_one(&format!("PackedState<MolecularShape2> {} {}", name, shape), &PackedState::from_group(shape.clone(), g).unwrap(), &mut r);
        }
        for shape in [LineShape::polygon(4).unwrap(), LineShape::from_radial("x", vec![1., 0.6, 1.2, 0.8, 1.]).unwrap()].iter() {
            roundtrip_one(&format!("PackedState<LineShape> {} {}", name, shape), &PackedState::from_group(shape.clone(), g).unwrap(), &mut r);
        }
        for shape in [LJShape2::circle(), LJShape2::from_trimer(0.63, 120., 1.)].iter() {
            roundtrip_one(&format!("PotentialState<LJShape2> {} {}", name, shape), &PotentialState::from_group(shape.clone(), g).unwrap(), &mut r);
        }
    }
}

// ---- C10 / C20: the command line tool itself (V:cli:*) ----
/// V:cli:analyse_state:* / V:cli:main:* — the written structure is what was asked for, it is the best of the replicas run
/// (more replicas never score lower), and the logged score is its score
#[test]
fn cli_pipeline() {
    use packing::{LJShape2, MolecularShape2, LineShape, PackedState, PotentialState};
    let dir = std::env::temp_dir().join(format!("vx-cli-{}", std::process::id()));
    std::fs::create_dir_all(&dir).unwrap();
    let mult = |g: &str| match g { "p1" => 1, "p2" | "p1m1" | "p1g1" => 2, _ => 4 };
    let mut r = rng();
    let groups = ["p1", "p2", "p1m1", "p1g1", "p2mm", "p2mg", "p2gg"];
    let result = std::panic::catch_unwind(std::panic::AssertUnwindSafe(|| {
        for case in 0..14 {
            let g = groups[case % 7];
            let kind = r.gen_range(0, 5);
            let (radius, angle, distance) = (0.5 + 0.1 * r.gen_range(0, 5) as f64, 90. + 10. * r.gen_range(0, 7) as f64, 0.8 + 0.1 * r.gen_range(0, 8) as f64);
            let sides = r.gen_range(3, 7);
            let (rs, as_, ds, ss) = (radius.to_string(), angle.to_string(), distance.to_string(), sides.to_string());
            let (pot, sub): (&str, Vec<&str>) = match kind {
                0 => ("Hard", vec!["circle"]), 1 => ("LJ", vec!["circle"]),
                2 => ("Hard", vec!["trimer", "--radius", &rs, "--angle", &as_, "--distance", &ds]),
                3 => ("LJ", vec!["trimer", "--radius", &rs, "--angle", &as_, "--distance", &ds]),
                _ => ("Hard", vec!["polygon", "--sides", &ss]),
            };
            let mut best_prev: Option<f64> = None;
            for &n in [1u64, 2, 4].iter() {
                let ns = n.to_string();
                let mut args = vec!["-v", "--replications", &ns, "--steps", "400", "--inner-steps", "100", "--potential", pot, g];
                // subcommand comes last; --outfile is added by run_cli before it would be wrong, so place it through args order
                let (ok, log, logged, out) = {
                    let mut a = args.clone(); a.push("--outfile"); let outp = dir.join(format!("c{}_{}", case, n)); let outs = outp.to_string_lossy().to_string();
                    let mut cmd = std::process::Command::new(env!("CARGO_BIN_EXE_packing"));
                    cmd.args(&a).arg(&outs).args(&sub);
                    let o = cmd.output().expect("the packing binary runs");
                    let log = String::from_utf8_lossy(&o.stderr).to_string() + &String::from_utf8_lossy(&o.stdout);
                    let logged = log.lines().filter_map(|l| l.split("Final score: ").nth(1)).filter_map(|s| s.trim().parse::<f64>().ok()).last();
                    (o.status.success(), log, logged, outp)
                };
                args.clear();
                let what = format!("packing --replications {} --steps 400 --inner-steps 100 --potential {} {} --outfile <f> {}", n, pot, g, sub.join(" "));
                assert!(ok, "WITNESS `{}` exits with an error: {}", what, log.lines().last().unwrap_or(""));
                let json = std::fs::read_to_string(out.with_extension("json")).unwrap_or_else(|_| panic!("WITNESS `{}` exits with status 0 but wrote no JSON file", what));
                assert!(out.with_extension("svg").exists(), "WITNESS `{}` exits with status 0 but wrote no SVG file", what);
                // what was asked for
                let (name, copies, shape_dbg, want_dbg, score): (String, usize, String, String, Option<f64>) = match kind {
                    0 | 2 => { let s: PackedState<MolecularShape2> = serde_json::from_str(&json).unwrap_or_else(|e| panic!("WITNESS `{}` wrote JSON that is not the requested kind of state: {}", what, e));
                               (s.wallpaper.name.clone(), s.total_shapes(), format!("{:?}", s.shape), format!("{:?}", if kind == 0 { MolecularShape2::circle() } else { MolecularShape2::from_trimer(radius, angle, distance) }), s.score()) }
                    1 | 3 => { let s: PotentialState<LJShape2> = serde_json::from_str(&json).unwrap_or_else(|e| panic!("WITNESS `{}` wrote JSON that is not the requested kind of state: {}", what, e));
                               (s.wallpaper.name.clone(), s.total_shapes(), format!("{:?}", s.shape), format!("{:?}", if kind == 1 { LJShape2::circle() } else { LJShape2::from_trimer(radius, angle, distance) }), s.score()) }
                    _ => { let s: PackedState<LineShape> = serde_json::from_str(&json).unwrap_or_else(|e| panic!("WITNESS `{}` wrote JSON that is not the requested kind of state: {}", what, e));
                           (s.wallpaper.name.clone(), s.total_shapes(), format!("{:?}", s.shape), format!("{:?}", LineShape::polygon(sides).unwrap()), s.score()) }
                };
                assert!(name == g, "WITNESS `{}` wrote a structure of group {}", what, name);
                assert!(copies == mult(g), "WITNESS `{}` wrote a structure with {} copies, the group has {}", what, copies, mult(g));
                if let Err(e) = debug_close(&want_dbg, &shape_dbg) { panic!("WITNESS `{}` wrote a structure of another shape: {}", what, e); }
                let sc = score.unwrap_or_else(|| panic!("WITNESS `{}` wrote a structure without a score", what));
                let lg = logged.unwrap_or_else(|| panic!("WITNESS `{}` logged no final score", what));
                assert!((sc - lg).abs() <= 1e-9 * sc.abs().max(1.), "WITNESS `{}` logged the final score {} but the written structure scores {}", what, lg, sc);
                if let Some(p) = best_prev { assert!(sc >= p - 1e-12 * p.abs().max(1.), "WITNESS `{}` scores {} but fewer replications scored {}", what, sc, p); }
                best_prev = Some(sc);
            }
        }
    }));
    let _ = std::fs::remove_dir_all(&dir);
    if let Err(e) = result { std::panic::resume_unwind(e); }
}

/// V:state:as_svg_uses:* — the SVG of a state places the cell outline at the cell and its 8 neighbours, then per placement the shape at
/// its Cartesian transform followed by the shape at that placement's 8 nearest lattice images (SVG `matrix(a b c d e f)` = m00 m10 m01 m11 m02 m12)
#[test]
fn svg_places() {
    use nalgebra::Matrix3;
    use packing::{LJShape2, MolecularShape2, PackedState, PotentialState};
    fn uses(doc: &str) -> Vec<(String, String, Vec<f64>)> {
        let mut out = vec![];
        for part in doc.split("<use ").skip(1) {
            let tag = &part[..part.find('>').unwrap_or(part.len())];
            let attr = |k: &str| tag.split(&format!("{}=\"", k)).nth(1).and_then(|r| r.split('"').next()).unwrap_or("").to_string();
            let tr = attr("transform");
            let nums: Vec<f64> = tr.trim_start_matches("matrix(").trim_end_matches(')').split_whitespace().filter_map(|x| x.parse().ok()).collect();
            out.push((attr("href"), attr("fill"), nums));
        }
        out
    }
    fn entries(t: &Transform2) -> Vec<f64> { let m: Matrix3<f64> = t.clone().into(); vec![m[(0, 0)], m[(1, 0)], m[(0, 1)], m[(1, 1)], m[(0, 2)], m[(1, 2)]] }
    fn check(what: &str, svg: String, cell: &Cell2, rel: Vec<Transform2>) {
        let got = uses(&svg);
        let mut want: Vec<(String, String, Vec<f64>)> = vec![];
        for t in cell.periodic_images(Transform2::identity(), 1, true) { want.push(("#cell".into(), "".into(), entries(&t))); }
        for p in rel.iter() {
            want.push(("#mol".into(), "blue".into(), entries(&cell.to_cartesian_isometry(*p))));
            for t in cell.periodic_images(*p, 1, false) { want.push(("#mol".into(), "green".into(), entries(&t))); }
        }
        assert!(got.len() == want.len(), "WITNESS {}: the SVG has {} <use> elements, the structure has {} (9 cells + 9 per placement)", what, got.len(), want.len());
        for (i, (g, w)) in got.iter().zip(want.iter()).enumerate() {
            let close = g.2.len() == 6 && g.2.iter().zip(w.2.iter()).all(|(a, b)| (a - b).abs() <= 1e-9 * a.abs().max(b.abs()).max(1.));
            assert!(g.0 == w.0 && g.1 == w.1 && close, "WITNESS {}: <use> element {} is href={} fill={} matrix{:?}, the structure has href={} fill={} matrix{:?}", what, i, g.0, g.1, g.2, w.0, w.1, w.2);
        }
    }
    let mut r = rng();
    for (name, g) in all_groups().iter() {
        let st = PackedState::from_group(MolecularShape2::from_trimer(0.637556, 120., 1.), g).unwrap();
        for round in 0..10 {
            if round > 0 { for b in st.generate_basis().iter_mut() { b.set_sampled(&mut r, 0.6); } }
            check(&format!("PackedState {} parameters {:?}", name, st.generate_basis().iter().map(|b| b.get_value()).collect::<Vec<_>>()),
                  st.as_svg().to_string(), &st.cell, st.relative_positions().collect());
        }
        let st = PotentialState::from_group(LJShape2::from_trimer(0.63, 120., 1.), g).unwrap();
        for round in 0..10 {
            if round > 0 { for b in st.generate_basis().iter_mut() { b.set_sampled(&mut r, 0.6); } }
            check(&format!("PotentialState {} parameters {:?}", name, st.generate_basis().iter().map(|b| b.get_value()).collect::<Vec<_>>()),
                  st.as_svg().to_string(), &st.cell, st.relative_positions().collect());
        }
    }
}

/// V:geom:fo_char:* / V:geom:from_operations:* / fo.grammar — strings of the notation (any term order, optional blanks and
/// parentheses, single-digit rational constants) parse to the affine map they denote; other strings never panic
#[test]
fn parse_grammar() {
    use nalgebra::Matrix3;
    let mut r = rng();
    let gen_row = |r: &mut Pcg64Mcg| -> (String, [f64; 3]) {
        // a random subset of {x-term, y-term, constant} in a random order
        let mut kinds: Vec<u8> = vec![0, 1, 2];
        kinds.shuffle(r);
        let n = r.gen_range(1, 4);
        let mut s = String::new();
        let mut val = [0f64; 3];
        for (i, k) in kinds.iter().take(n).enumerate() {
            let neg = r.gen::<bool>();
            if r.gen::<bool>() { s.push(' '); }
            if neg { s.push('-'); } else if i > 0 || r.gen_range(0, 4) == 0 { s.push('+'); }
            if r.gen_range(0, 3) == 0 { s.push(' '); }
            let sg = if neg { -1. } else { 1. };
            match k {
                0 => { s.push('x'); val[0] = sg; }
                1 => { s.push('y'); val[1] = sg; }
                _ => {
                    let num = r.gen_range(0, 10); s.push_str(&num.to_string());
                    if r.gen::<bool>() { let den = r.gen_range(1, 10); s.push('/'); s.push_str(&den.to_string()); val[2] = sg * num as f64 / den as f64; } else { val[2] = sg * num as f64; }
                }
            }
        }
        if r.gen_range(0, 3) == 0 { s.push(' '); }
        (s, val)
    };
    for _ in 0..20000 {
        let (s0, v0) = gen_row(&mut r);
        let (s1, v1) = gen_row(&mut r);
        let s = if r.gen::<bool>() { format!("({},{})", s0, s1) } else { format!("{},{}", s0, s1) };
        let t = match std::panic::catch_unwind(|| Transform2::from_operations(&s)) {
            Err(_) => panic!("WITNESS from_operations({:?}) panics", s),
            Ok(Err(e)) => panic!("WITNESS from_operations({:?}) is rejected: {}", s, e),
            Ok(Ok(t)) => t,
        };
        let m: Matrix3<f64> = t.into();
        let got = [m[(0, 0)], m[(0, 1)], m[(0, 2)], m[(1, 0)], m[(1, 1)], m[(1, 2)]];
        let want = [v0[0], v0[1], v0[2], v1[0], v1[1], v1[2]];
        assert!(got.iter().zip(want.iter()).all(|(a, b)| (a - b).abs() <= 1e-12), "WITNESS from_operations({:?}) = rows {:?}, the expression denotes {:?}", s, got, want);
    }
    // arbitrary other strings: an error or a value, never a panic
    let alphabet: Vec<char> = "xy+-*/0123456789 (),.abzXY½²٣１Ⅷ\t".chars().collect();
    for _ in 0..20000 {
        let n = r.gen_range(0, 12);
        let s: String = (0..n).map(|_| alphabet[r.gen_range(0, alphabet.len())]).collect();
        if std::panic::catch_unwind(|| Transform2::from_operations(&s).is_ok()).is_err() { panic!("WITNESS from_operations({:?}) panics", s); }
    }
}
