// Native demonstrations of the genuine defects found on the pinned tree (DESIGN §6).
// Usage: copy into <repo copy>/tests/ and run `cargo test --offline --test defects_demo`.
// Each test FAILS on the pinned tree (70d49e7) and PASSES once the corresponding `fix:` commit is applied.
use std::sync::{Arc, Mutex};

use anyhow::Error;
use serde::Serialize;
use svg::Document;

use packing::traits::*;
use packing::wallpaper::{get_wallpaper_group, WallpaperGroups};
use packing::{BuildOptimiser, SharedValue, StandardBasis};

/// A scripted one-parameter state: score = -(x^2) (maximum 0 at x = 0)
#[derive(Debug, Serialize)]
struct Toy {
    x: SharedValue,
    #[serde(skip)]
    seen: Arc<Mutex<Vec<f64>>>,
    #[serde(skip)]
    mode: u8,
}
impl Clone for Toy {
    fn clone(&self) -> Self {
        Toy { x: SharedValue::new(self.x.get_value()), seen: Arc::new(Mutex::new(vec![])), mode: self.mode }
    }
}
impl PartialEq for Toy { fn eq(&self, o: &Self) -> bool { self.score() == o.score() } }
impl Eq for Toy {}
impl PartialOrd for Toy { fn partial_cmp(&self, o: &Self) -> Option<std::cmp::Ordering> { self.score().partial_cmp(&o.score()) } }
impl Ord for Toy { fn cmp(&self, o: &Self) -> std::cmp::Ordering { self.partial_cmp(o).unwrap() } }
impl ToSVG for Toy { type Value = Document; fn as_svg(&self) -> Document { Document::new() } }
impl State for Toy {
    fn score(&self) -> Option<f64> {
        let x = self.x.get_value();
        let mut seen = self.seen.lock().unwrap();
        seen.push(x);
        match self.mode {
            // quadratic bowl
            0 => Some(-(x * x)),
            // every evaluation is better than the one before: every move is accepted
            1 => Some(seen.len() as f64),
            // quadratic bowl whose score is not a number outside |x| <= 1/2
            _ => Some(if x.abs() > 0.5 { std::f64::NAN } else { -(x * x) }),
        }
    }
    fn generate_basis(&self) -> Vec<StandardBasis> { vec![StandardBasis::new(&self.x, -10., 10.)] }
    fn total_shapes(&self) -> usize { 1 }
    fn as_positions(&self) -> Result<String, Error> { Ok(String::new()) }
}
fn toy(x: f64, mode: u8) -> Toy { Toy { x: SharedValue::new(x), seen: Arc::new(Mutex::new(vec![])), mode } }

/// D4 (C05): kt_start = 0 with a finishing temperature gives a NaN temperature after the first
/// inner loop, and NaN accepts every move: the hill-climb goes downhill.
#[test]
fn d4_zero_temperature_with_kt_finish_never_lowers_score() {
    let start = toy(0., 0);
    let s0 = start.score().unwrap();
    let res = BuildOptimiser::default()
        .seed(1).steps(2000).inner_steps(100).kt_start(0.).kt_finish(0.001).max_step_size(0.1)
        .build().optimise_state(start);
    assert!(res.score().unwrap() >= s0, "score dropped from {} to {}", s0, res.score().unwrap());
}

/// D4b (C05): kt_start = 0 with kt_ratio > 1 turns +0.0 into -0.0 and every worse move is accepted.
#[test]
fn d4b_zero_temperature_with_ratio_above_one_never_lowers_score() {
    let start = toy(0., 0);
    let s0 = start.score().unwrap();
    let res = BuildOptimiser::default()
        .seed(1).steps(2000).inner_steps(100).kt_start(0.).kt_ratio(Some(2.)).max_step_size(0.1)
        .build().optimise_state(start);
    assert!(res.score().unwrap() >= s0, "score dropped from {} to {}", s0, res.score().unwrap());
}

/// D7 (C19): after a loop with few rejections the step grows beyond max_step_size.
#[test]
fn d7_step_never_exceeds_configured_maximum() {
    let start = toy(0., 1);
    let log = start.seen.clone();
    let max_step = 0.01;
    let _res = BuildOptimiser::default()
        .seed(3).steps(300).inner_steps(100).kt_start(0.).kt_ratio(Some(0.)).max_step_size(max_step)
        .build().optimise_state(start);
    let seen = log.lock().unwrap().clone();
    // every move accepted => consecutive evaluations differ by one proposal
    let bound = max_step * 20. / 2. + 1e-12;
    for w in seen.windows(2) {
        assert!((w[1] - w[0]).abs() <= bound, "move of {} exceeds {}", (w[1] - w[0]).abs(), bound);
    }
}

/// D8 (C20): steps = 0 (or inner_steps = 0) divides by zero.
#[test]
fn d8_zero_steps_returns_normally() {
    let res = BuildOptimiser::default().seed(0).steps(0).build().optimise_state(toy(1., 0));
    assert_eq!(res.score(), Some(-1.));
    let res = BuildOptimiser::default().seed(0).steps(10).inner_steps(0).build().optimise_state(toy(1., 0));
    assert!(res.score().is_some());
}

/// D6 (C18): the factor chosen for a requested finishing temperature must take kt_start to
/// kt_finish over the run, i.e. factor^(number of cooling steps) = finish/start.
#[test]
fn d6_cooling_factor_reaches_kt_finish() {
    struct Cap(Mutex<Vec<String>>);
    impl log::Log for Cap {
        fn enabled(&self, _: &log::Metadata) -> bool { true }
        fn log(&self, r: &log::Record) { self.0.lock().unwrap().push(format!("{}", r.args())); }
        fn flush(&self) {}
    }
    static CAP: Cap = Cap(Mutex::new(Vec::new()));
    let _ = log::set_logger(&CAP);
    log::set_max_level(log::LevelFilter::Debug);
    let (steps, inner, start, finish) = (10000u64, 1000u64, 0.1f64, 0.001f64);
    let _ = BuildOptimiser::default().seed(0).steps(steps).inner_steps(inner).kt_start(start).kt_finish(finish).build();
    let msgs = CAP.0.lock().unwrap().clone();
    let line = msgs.iter().rev().find(|m| m.starts_with("Setting kt_ratio to: ")).expect("ratio logged");
    let factor: f64 = line["Setting kt_ratio to: ".len()..].parse().unwrap();
    let loops = (steps / inner) as i32;
    let reached = start * factor.powi(loops);
    assert!((reached / finish - 1.).abs() < 1e-6, "after {} cooling steps kT = {} instead of {}", loops, reached, finish);
}

/// D5 (C10): the p1g1 table is labelled p1m1.
#[test]
fn d5_group_label_is_the_requested_group() {
    assert_eq!(get_wallpaper_group(WallpaperGroups::p1g1).unwrap().name, "p1g1");
}

/// D9 (C13/C03, KNOWN FINDING, not fixed): the pair energy uses the first particle's sigma only, so it is not
/// symmetric in the two particles when they are unlike (trimer with radius != 1).
#[test]
fn d9_pair_energy_is_symmetric() {
    use packing::traits::Potential;
    use packing::LJ2;
    let a = LJ2::new(0., 0., 2.0);
    let b = LJ2::new(2., 0., 1.275112);
    assert_eq!(a.energy(&b), b.energy(&a));
}

/// D1 (C01/C02): the number of image shells searched for overlaps was a heuristic on the cell's aspect ratio and
/// angle; in a flat, skewed cell a linear trimer (CLI: trimer --radius 1 --angle 180 --distance 1.9) overlaps its own
/// image four cells away, yet the state reports a score — here a "packing fraction" above 1.
#[test]
fn d1_scored_state_has_no_overlap_with_distant_images() {
    use packing::{MolecularShape2, PackedState};
    let wg = get_wallpaper_group(WallpaperGroups::p1).unwrap();
    let st = PackedState::from_group(MolecularShape2::from_trimer(1.0, 180., 1.9), &wg).unwrap();
    let mut basis = st.generate_basis();
    let params = [8.59967345671266, 0.23833076514190515, 0.5551091400192223, -0.2866407470727914, -0.4567910057714848, 1.6714100653528436];
    for (b, p) in basis.iter_mut().zip(params.iter()) { b.set_value(*p); }
    // independent check over 8 shells
    let t1 = st.cartesian_positions().next().unwrap();
    let s1 = st.shape.transform(&t1);
    let p = st.relative_positions().next().unwrap();
    let overlap = st.cell.periodic_images(p, 8, false).any(|t2| s1.intersects(&st.shape.transform(&t2)));
    assert!(overlap, "the witness state really overlaps an image");
    assert!(st.score().is_none(), "state with overlapping images reports score {:?}", st.score());
}

/// D3a (C03): pairs within the cell are counted once but pairs across a cell face twice, so two descriptions of the
/// same p2 crystal (origin shifted to the other inversion centre) score differently.
#[test]
fn d3a_lj_score_is_a_property_of_the_crystal() {
    use packing::{LJShape2, PotentialState};
    let wg = get_wallpaper_group(WallpaperGroups::p2).unwrap();
    let score_at = |x: f64| {
        let st = PotentialState::from_group(LJShape2::circle(), &wg).unwrap();
        let mut basis = st.generate_basis();
        // cell: length 3, ratio 1, angle pi/2; site (x, 0), orientation 0
        let params = [3.0, 1.0, std::f64::consts::PI / 2., x, 0., 0.];
        for (b, p) in basis.iter_mut().zip(params.iter()) { b.set_value(*p); }
        st.score().unwrap()
    };
    // copies at +-(0.3, 0) (0.6 apart in the cell, 0.4 across the face)  vs  the same crystal described from the
    // inversion centre at (1/2, 0): copies at +-(0.2, 0) (0.4 apart in the cell, 0.6 across the face)
    let (s1, s2) = (score_at(0.3), score_at(-0.2));
    // the potential of a circle is uncut: the two descriptions agree up to the convergence error of the 3-shell sum
    assert!((s1 - s2).abs() < 1e-4 * s1.abs(), "same crystal, scores {} and {}", s1, s2);
}

/// D2 (C02, KNOWN FINDING, not fixed): the trimer area is pairwise inclusion-exclusion; when a small disc lies inside
/// the central one the lens formula takes acos of a number above 1 and the area — hence the score — is NaN.
#[test]
fn d2_trimer_area_is_the_area_of_the_union() {
    use packing::MolecularShape2;
    let shape = MolecularShape2::from_trimer(0.3, 120., 0.5);
    let area = shape.area();
    // both small discs (radius 0.3 at distance 0.5) lie inside the unit disc: the union is the unit disc
    assert!((area - std::f64::consts::PI).abs() < 1e-9, "area of a unit disc with two discs inside it reported as {}", area);
}

/// D3b (C03, KNOWN FINDING, not fixed): the lattice sum looks at a fixed 3 shells of images whatever the cutoff.
/// In a flat cell (height 1) trimer atoms 4 cells away are still inside the 3.5 cutoff and are missed.
#[test]
fn d3b_every_pair_within_the_cutoff_is_counted() {
    use packing::traits::Potential;
    use packing::{LJShape2, PotentialState};
    let wg = get_wallpaper_group(WallpaperGroups::p1).unwrap();
    let shape = LJShape2::from_trimer(0.637556, 120., 1.);
    let st = PotentialState::from_group(shape.clone(), &wg).unwrap();
    let mut basis = st.generate_basis();
    // cell: a = 5, b = 1 (ratio 0.2), angle pi/2; molecule at the origin, orientation 0
    let params = [5.0, 0.2, std::f64::consts::PI / 2., 0., 0., 0.];
    for (b, p) in basis.iter_mut().zip(params.iter()) { b.set_value(*p); }
    // independent lattice sum over 6 shells, each unordered pair once (one molecule per cell: half the ordered sum)
    let t0 = st.cartesian_positions().next().unwrap();
    let s0 = st.shape.transform(&t0);
    let p0 = st.relative_positions().next().unwrap();
    let full: f64 = st.cell.periodic_images(p0, 6, false).map(|t| s0.energy(&st.shape.transform(&t))).sum::<f64>() / 2.;
    let reported = st.score().unwrap();
    assert!((reported + full).abs() < 1e-12, "score {} but the lattice energy per molecule within the cutoff is {}", reported, full);
}

/// D10 (C07/C08/C05): a score that is not a number is accepted with certainty (`min(NaN, 1) = 1`), and from a NaN score every
/// later move is accepted too.  Real LJ states reach it: a site clamped onto x = -1/2 in a mirror group puts two molecules on
/// top of each other and the pair energy is inf - inf = NaN (PotentialState p1m1, trimer, x = -0.5, angle 0: score Some(NaN)).
/// Shown here with a scripted state whose score is NaN beyond |x| > 1/2: the zero-temperature hill-climb ends below its start.
#[test]
fn d10_nan_score_is_never_accepted() {
    for seed in 0..10 {
        let start = toy(0., 2);
        let res = BuildOptimiser::default().seed(seed).steps(400).inner_steps(100).kt_start(0.).kt_ratio(Some(0.)).max_step_size(0.2)
            .build().optimise_state(start);
        let s = res.score().unwrap();
        assert!(s >= 0., "seed {}: hill-climb from the maximum 0 ended at {}", seed, s);
    }
}
